"""C15 - directory trees: populating from a FILE-LIST and matching directory contents.

Implementation side: complete test cases run IN PROCESS through `impl.main_program` / `impl.run_main`.
  * populate cases: the [setup] phase is a sequence of `dir PATH [= | +=] (FILE-LIST | dir-contents-of SRC)` /
    `file PATH ..` instructions (and `$ ln -s ..` to put symbolic links into the directory); run with `--keep`;
    observed: the status of the case, the tree of the act directory afterwards, and that everything outside of it
    (home directory, the rest of the sandbox, a directory that absolute FILE-NAMEs point into) is unchanged.
  * matcher cases: a tree of regular files, directories and symbolic links (to file / to directory / dangling) is
    made on disk by the harness; `exists T : FILE-MATCHER` or `dir-contents T : [OPTIONS] FILES-MATCHER`;
    observed: PASS / FAIL / HARD_ERROR / VALIDATION_ERROR.
Model side: Model/Files.v through Spec/C15.v `check_case`, evaluated by vm_compute: correspondence
(model = observed) and the property predicate (observed tree = what the list denotes (Spec `denote`); observed
verdict = the declarative semantics `sem_fm` of the manual) on the implementation's observed behaviour.
Oracles of a matcher case: the order of `os.scandir` (the tree is written down in the order the OS lists it) and the
answers of `fnmatch.fnmatch` / `PurePath.match` for exactly the (pattern, string) pairs of the case.
"""
import fnmatch
import json
import os
import pathlib
import shutil

import common
from common import Failure, cZ, cN, cnat, cbool, clist, copt
import impl

EXPLANATION = ('Theorems over the Gallina model of file_list / file_makers / copy_dir_contents (populate) and of '
               'files_matcher/models.py + the files-/file-matchers (Props/C15.v), + differential correspondence of that '
               'model with complete test cases run in process on trees with symbolic links.')
ASSUMPTIONS = [
    'os.scandir lists a directory in some order: Section variable scandir with the hypothesis that it is a permutation',
    'fnmatch.fnmatch / PurePath.match (glob patterns of name, stem, suffix(es), path) are oracle tables computed by the '
    'harness per case; an oracle miss is a distinct verdict (VMiss), never a default',
    'regex patterns (name|stem|suffixes|suffix|path ~ REGEX): oracle tables computed with re.compile(..).search(..), the call '
    'MatchesRegex makes with is_full_match=False',
    'contents TEXT-MATCHER for text matchers other than is-empty / equals / !: opaque oracle per (matcher number, file '
    'contents); the table holds the verdict of the real matcher obtained through the separate `contents` INSTRUCTION on a '
    'file with those contents (PASS / FAIL / HARD_ERROR)',
    'run PROGRAM: oracle per (program number, path) = the program started by the harness with the path as last argument '
    'exits with code 0',
    'symbolic-link cycles are outside the inductive tree type; the generator does not create them',
    'populate: a symbolic link TO A DIRECTORY on the way of a written path is outside the model (outcome ViaLink, '
    'guard of the confinement theorem); dangling links and links to files are modelled',
]
TRUSTED_EXTRA = ['CPython os / pathlib / shutil (mkdir(parents), open("x"), copytree, scandir, DirEntry.is_dir) as '
                 'summarised by the tree primitives of Model/Files.v (lstat, mkdirs, alter, deref)']

IMPORTS = ['Lib.Tree', 'Model.Files', 'Spec.C15']
MARKER = 'MARKER-c15'       # name of the entry that must never appear outside of the populated directory


def ctext(s):
    if not s:
        return '(@nil N)'
    return '[' + ';'.join(str(ord(c)) for c in s) + ']%N'


def cpath(comps):
    if not comps:
        return '(@nil name)'
    return '[' + '; '.join(ctext(c) for c in comps) + ']'


# =================================================================================================
# trees on disk -> Coq terms
# =================================================================================================
def term_of_path(p, order=None):
    """The Coq [tree] of what is at p; directory entries in os.scandir order; a link carries what it resolves to."""
    if os.path.islink(p):
        if not os.path.exists(p):
            return '(Link None)'
        return '(Link (Some %s))' % term_of_path(os.path.realpath(p))
    if os.path.isdir(p):
        return '(Dir %s)' % dirc_term(p)
    with open(p, 'r', errors='replace') as f:
        return '(File %s)' % ctext(f.read())


def dirc_term(p):
    ents = [(e.name, e.path) for e in os.scandir(p)]
    if not ents:
        return '(@nil (name * tree))'
    return '[' + '; '.join('(%s, %s)' % (ctext(n), term_of_path(q)) for n, q in ents) + ']'


def snapshot(p):
    """relative path -> description, without following links"""
    out = {}
    for root, dirs, files in os.walk(p):
        for n in dirs + files:
            q = os.path.join(root, n)
            rel = os.path.relpath(q, p)
            if os.path.islink(q):
                out[rel] = ('l', os.readlink(q))
            elif os.path.isdir(q):
                out[rel] = ('d',)
            else:
                with open(q, 'rb') as f:
                    out[rel] = ('f', f.read())
    return out


def json_tree(p):
    if os.path.islink(p):
        d = {'symlink': os.readlink(p), 'dangling': not os.path.exists(p)}
        if d['dangling']:
            try:
                os.stat(p)
            except FileNotFoundError:
                pass
            except OSError as ex:
                d['unresolvable'] = ex.strerror
        return d
    if os.path.isdir(p):
        return {n: json_tree(os.path.join(p, n)) for n in sorted(os.listdir(p))}
    with open(p, 'r', errors='replace') as f:
        return 'file:' + f.read()


# =================================================================================================
# the implementation, in process
# =================================================================================================
class Runner:
    def __init__(self, root):
        self.root = root
        shutil.rmtree(root, ignore_errors=True)
        self.sbx = os.path.join(root, 'sbx')
        self.phome = os.path.join(root, 'phome')
        self.mhome = os.path.join(root, 'mhome')
        self.outside = os.path.join(root, 'outside')
        for d in (self.sbx, self.phome, self.mhome, self.outside):
            os.makedirs(d)
        self.mp = impl.main_program(self.sbx)
        self._text_cache = {}
        from exactly_lib.processing import exit_values as ev
        self.codes = {ev.EXECUTION__PASS.exit_code: 'PASS', ev.EXECUTION__FAIL.exit_code: 'FAIL',
                      ev.EXECUTION__HARD_ERROR.exit_code: 'HARD_ERROR',
                      ev.EXECUTION__VALIDATION_ERROR.exit_code: 'VALIDATION_ERROR'}
        self.other = {ev.NO_EXECUTION__SYNTAX_ERROR.exit_code: 'SYNTAX_ERROR',
                      ev.EXECUTION__INTERNAL_ERROR.exit_code: 'INTERNAL_ERROR'}
        self._make_sources()
        self.phome_snap = snapshot(self.phome)

    # ---- static material of the populate cases: sources for dir-contents-of, link targets ----
    def _make_sources(self):
        h = self.phome

        def w(rel, content):
            q = os.path.join(h, rel)
            os.makedirs(os.path.dirname(q), exist_ok=True)
            with open(q, 'w') as f:
                f.write(content)

        os.makedirs(os.path.join(h, 'src0'))                       # empty
        w('src1/a', 'A1')                                          # files and a sub directory
        w('src1/c', '')
        w('src1/b/x.txt', 'bx')
        w('src2/a/k', 'k2')                                        # links: to file, to dir (followed by the copy)
        w('src2/f', 'F2')
        os.symlink('f', os.path.join(h, 'src2/lf'))
        os.symlink('a', os.path.join(h, 'src2/ld'))
        w('src3/b', 'B3')                                          # a dangling link at top level
        os.symlink('nowhere', os.path.join(h, 'src3/dang'))
        w('src4/c/deep/z', 'z4')                                   # a dangling link below a directory
        os.symlink('nowhere', os.path.join(h, 'src4/c/dang'))
        w('src4/a', 'A4')
        w('src5/' + MARKER, 'marker')                              # used only together with forbidden FILE-NAMEs
        w('lnk_file', 'LF')
        w('lnk_dir/inner', 'in')
        self.nsrc = 5          # sources used by the ordinary generators (src5 is the marker source)
        # iterdir order of every source, and its entries as Coq terms (in that order)
        self.src_terms = [dirc_term(os.path.join(h, 'src%d' % i)) for i in range(self.nsrc + 1)]

    def status_of(self, r):
        if r.exception is not None:
            return 'EXCEPTION ' + repr(r.exception)
        if r.exit_code in self.codes:
            return self.codes[r.exit_code]
        return self.other.get(r.exit_code, 'EXIT %r' % r.exit_code)

    def run_case(self, home, text, keep):
        path = os.path.join(home, 't.case')
        with open(path, 'w') as f:
            f.write(text)
        r = impl.run_main(self.mp, (['--keep'] if keep else []) + ['t.case'], home, self.root)
        os.remove(path)
        return r

    # ---- populate case ----
    def run_populate(self, instrs, populated=None):
        """populated: components of the directory the (single) FILE-LIST of a forbidden-name case populates"""
        text = '[setup]\n\n' + '\n'.join(self.instr_src(i) for i in instrs) + '\n'
        r = self.run_case(self.phome, text, keep=True)
        status = self.status_of(r)
        entries = os.listdir(self.sbx)
        sds_list = [n for n in entries if n.startswith('exactly-') and os.path.isdir(os.path.join(self.sbx, n))
                    and not os.path.islink(os.path.join(self.sbx, n))]
        tree_term, tree_json, problems = '(@nil (name * tree))', None, []
        # the marker entry of a forbidden FILE-NAME must be nowhere but below the populated directory
        if populated is not None:
            inside = None
            for area in (self.sbx, self.outside):
                for dirpath, dirnames, filenames in os.walk(area):
                    for n in dirnames + filenames:
                        if n == MARKER:
                            q = os.path.join(dirpath, n)
                            rel = os.path.relpath(q, self.sbx).split(os.sep)
                            ok = area == self.sbx and len(rel) > 2 + len(populated) and rel[1] == 'act' and rel[2:2 + len(populated)] == populated
                            if not ok:
                                problems.append('the marker entry of a forbidden FILE-NAME was created outside of the populated '
                                                'directory %s: %s' % ('/'.join(populated), os.path.relpath(q, self.root)))
        for n in entries:
            if n not in sds_list:
                q = os.path.join(self.sbx, n)
                problems.append('created next to the sandbox directory: %r' % {n: json_tree(q)})
                shutil.rmtree(q) if os.path.isdir(q) and not os.path.islink(q) else os.remove(q)
        if len(sds_list) == 1:
            sds = os.path.join(self.sbx, sds_list[0])
            act = os.path.join(sds, 'act')
            if os.path.isdir(act):
                tree_term = dirc_term(act)
                tree_json = json_tree(act)
            top = sorted(os.listdir(sds))
            if top != ['act', 'internal', 'result', 'tmp']:
                problems.append('sandbox directory contains %r' % top)
            elif os.listdir(os.path.join(sds, 'tmp')):
                problems.append('sandbox tmp/ contains %r' % os.listdir(os.path.join(sds, 'tmp')))
        elif sds_list:
            problems.append('more than one sandbox: %r' % sds_list)
        elif status not in ('VALIDATION_ERROR', 'SYNTAX_ERROR'):
            problems.append('no sandbox kept')
        for n in sds_list:
            shutil.rmtree(os.path.join(self.sbx, n), ignore_errors=True)
        if os.listdir(self.outside):
            problems.append('created through an absolute FILE-NAME: %r' % json_tree(self.outside))
            for n in os.listdir(self.outside):
                q = os.path.join(self.outside, n)
                shutil.rmtree(q) if os.path.isdir(q) and not os.path.islink(q) else os.remove(q)
        snap = snapshot(self.phome)
        if snap != self.phome_snap:
            diff = sorted(set(snap.items()) ^ set(self.phome_snap.items()), key=repr)[:4]
            problems.append('home directory changed: %r' % diff)
            shutil.rmtree(self.phome)
            os.makedirs(self.phome)
            self._make_sources()
            self.phome_snap = snapshot(self.phome)
        if sorted(os.listdir(self.root)) != ['mhome', 'outside', 'phome', 'sbx', 'stderr.txt', 'stdout.txt']:
            problems.append('scratch root contains %r' % sorted(os.listdir(self.root)))
        return {'text': text, 'status': status, 'tree_term': tree_term, 'tree': tree_json, 'problems': problems,
                'stderr': r.err[-600:] if status not in ('PASS',) else ''}

    # ---- round trip: the same setup, then dir-contents DIR : -recursive matches -full {listing of what was found} ----
    @staticmethod
    def listing_of(tree_json, prefix=()):
        """[(components, 'file'|'dir')] of a json_tree without symbolic links; None if there is a link"""
        out = []
        for n in sorted(tree_json):
            v = tree_json[n]
            if isinstance(v, str):
                out.append((prefix + (n,), 'file'))
            elif 'symlink' in v and isinstance(v.get('dangling'), bool):
                return None
            else:
                out.append((prefix + (n,), 'dir'))
                sub = Runner.listing_of(v, prefix + (n,))
                if sub is None:
                    return None
                out += sub
        return out

    def run_round_trip(self, instrs, dirname, listing):
        cond = '{\n' + ''.join('  %s : type %s\n' % ('/'.join(c), t) for c, t in listing) + '}' if listing else '{ }'
        text = ('[setup]\n\n' + '\n'.join(self.instr_src(i) for i in instrs) +
                '\n\n[assert]\n\ndir-contents %s : -recursive matches -full %s\n' % (dirname, cond))
        r = self.run_case(self.phome, text, keep=False)
        return {'text': text, 'status': self.status_of(r), 'stderr': r.err[-600:] if r.exit_code != 0 else ''}

    # ---- rendering of FILE-LISTs ----
    def name_src(self, nm):
        if nm == '' or any(c in nm for c in ':; '):
            return "'%s'" % nm
        return nm

    def entry_src(self, e, ind):
        pad = '  ' * ind
        k = e[0]
        if k == 'file':
            s = pad + 'file ' + self.name_src(e[1])
            if e[2] is not None:
                s += " %s '%s'" % e[2]
            return s
        if k == 'dir':
            return pad + 'dir ' + self.name_src(e[1])
        if k == 'dirlist':
            inner = '\n'.join(self.entry_src(x, ind + 1) for x in e[3])
            return pad + 'dir %s %s {\n%s%s}' % (self.name_src(e[1]), e[2], inner + ('\n' if inner else ''), pad)
        if k == 'dircopy':
            return pad + 'dir %s %s dir-contents-of src%d' % (self.name_src(e[1]), e[2], e[3])
        raise ValueError(e)

    def instr_src(self, i):
        if i[0] == 'make':
            return self.entry_src(i[1], 0)
        _, comps, kind = i
        # a dangling target next to the link, or (relative) outside of the act directory
        dangling = 'nowhere-to-be-found' if (len(comps) + len(comps[-1])) % 2 == 0 else '../' * (len(comps) + 1) + 'escaped-through-link'
        target = {'dangling': dangling, 'homefile': os.path.join(self.phome, 'lnk_file'),
                  'homedir': os.path.join(self.phome, 'lnk_dir')}[kind]
        return '$ ln -sT %s %s' % (target, '/'.join(comps))

    def entry_term(self, e):
        k = e[0]
        md = {'=': 'Create', '+=': 'Append'}
        if k == 'file':
            m = 'None' if e[2] is None else '(Some (%s, %s))' % (md[e[2][0]], ctext(e[2][1]))
            return '(EFile %s %s)' % (ctext(e[1]), m)
        if k == 'dir':
            return '(EDir %s)' % ctext(e[1])
        if k == 'dirlist':
            return '(EDirList %s %s %s)' % (ctext(e[1]), md[e[2]],
                                            clist([self.entry_term(x) for x in e[3]]) if e[3] else '(@nil entry)')
        if k == 'dircopy':
            return '(EDirCopy %s %s %s)' % (ctext(e[1]), md[e[2]], self.src_terms[e[3]])
        raise ValueError(e)

    def instr_term(self, i):
        if i[0] == 'make':
            return '(IMake %s)' % self.entry_term(i[1])
        _, comps, kind = i
        tgt = {'dangling': 'None', 'homefile': '(Some (File %s))' % ctext('LF'),
               'homedir': '(Some (Dir [(%s, File %s)]))' % (ctext('inner'), ctext('in'))}[kind]
        return '(ISymlink %s %s)' % (cpath(comps), tgt)

    # ---- oracle for opaque TEXT-MATCHERs: the `contents` instruction on a file with the given contents ----
    def text_oracle(self, k, txt):
        """True / False, or None for HARD_ERROR"""
        key = (k, txt)
        if key not in self._text_cache:
            d = os.path.join(self.mhome, 'text-oracle')
            os.makedirs(d, exist_ok=True)
            with open(os.path.join(d, 'f'), 'w') as f:
                f.write(txt)
            r = self.run_case(self.mhome, '[assert]\n\ncontents -rel-home text-oracle/f : ( %s )\n' % TM_OPAQUE[k], keep=False)
            st = self.status_of(r)
            if st not in ('PASS', 'FAIL', 'HARD_ERROR'):
                raise RuntimeError('text oracle: %r on %r gave %s: %s' % (TM_OPAQUE[k], txt, st, r.err[-300:]))
            self._text_cache[key] = {'PASS': True, 'FAIL': False, 'HARD_ERROR': None}[st]
        return self._text_cache[key]

    # ---- matcher case ----
    def run_matcher(self, root_name, m, form):
        if form == 'dir-contents' and m[0] == 'dirc':
            text = '[assert]\n\ndir-contents -rel-home %s : %s%s\n' % (root_name, cfg_src(m[1]), fsm_src(m[2], True))
        else:
            text = '[assert]\n\nexists -rel-home %s : %s\n' % (root_name, fm_src(m, False))
        r = self.run_case(self.mhome, text, keep=False)
        return {'text': text, 'status': self.status_of(r), 'stderr': r.err[-600:] if r.exit_code not in (0,) else ''}


# =================================================================================================
# generators: FILE-LISTs
# =================================================================================================
GOOD_NAMES = ['a', 'b', 'c', 'a/b', 'b/c', 'a/b/c', 'c/a', 'a/c', 'b/a/d', './a', 'a//b', 'a/./c', 'b/', '.', 'x.txt',
              'a/x.txt']
MORE_NAMES = ['e', 'h', 'k', 'm/n', 'e/h', 'k/m', 'p', 'q/r/s', 'u.v', 'w']
CONTENTS = ['', 'x', 'hello', 'yy']


def bad_names(run):
    return ['../e', 'a/../b', '..', 'a/..', os.path.join(run.outside, 'esc'), os.path.join(run.outside, 'sub', 'esc'), 'a:b', 'a;b', '',
            '../../e', 'b/../../e']


def norm_name(nm):
    return '/'.join(c for c in nm.split('/') if c not in ('', '.'))


def note_created(created, nm, kind):
    key = norm_name(nm)
    comps = key.split('/') if key else []
    for i in range(1, len(comps)):
        created.setdefault('/'.join(comps[:i]), 'd')
    if key:
        created.setdefault(key, kind)


def gen_entry(rng, run, depth, allow_bad, created=None):
    """created: what earlier entries of the same list made (normalised name -> 'f' | 'd'); appends mostly go there"""
    if created is None:
        created = {}
    if allow_bad and rng.chance(0.04):
        nm = rng.choice(bad_names(run))
        return rng.choice([('file', nm, None), ('dir', nm), ('file', nm, ('=', 'x')), ('dirlist', nm, '=', [])])
    existing = sorted(created)
    if existing and rng.chance(0.45):
        key = rng.choice(existing)
        nm = rng.choice([key, key, './' + key, key.replace('/', '//'), key + '/'])
        if created[key] == 'f':
            if rng.chance(0.7):
                return ('file', nm, ('+=', rng.choice(CONTENTS)))
            return rng.choice([('file', nm, None), ('dir', nm), ('dirlist', nm, '+=', []), ('file', nm + '/below', None)])
        r = rng.below(10)
        if r < 4 and depth > 0:
            return ('dirlist', nm, '+=', gen_list(rng, run, depth - 1, allow_bad, rng.randint(0, 3)))
        if r < 6:
            return ('dircopy', nm, '+=', pick_src(rng, run))
        if r < 8:
            sub = key + '/' + rng.choice(['a', 'b', 'n1', 'n2/n3'])
            note_created(created, sub, 'f')
            return ('file', sub, ('=', rng.choice(CONTENTS)))
        return rng.choice([('dir', nm), ('file', nm, ('+=', 'x')), ('dirlist', nm, '=', []), ('file', nm, None)])
    for _ in range(4):
        nm = rng.choice(GOOD_NAMES[:9]) if rng.chance(0.5) else rng.choice(GOOD_NAMES + MORE_NAMES)
        key = norm_name(nm)
        comps = key.split('/')
        clash = key in created or key == '' or any(created.get('/'.join(comps[:i])) == 'f' for i in range(1, len(comps)))
        if not clash or rng.chance(0.2):
            break
    r = rng.below(100)
    if r < 4:        # a blind append
        return rng.choice([('file', nm, ('+=', 'x')), ('dirlist', nm, '+=', []), ('dircopy', nm, '+=', 1)])
    if r < 45:
        note_created(created, nm, 'f')
        return ('file', nm, None if rng.chance(0.35) else ('=', rng.choice(CONTENTS)))
    if r < 58 or depth <= 0:
        note_created(created, nm, 'd')
        return ('dir', nm)
    if r < 88:
        note_created(created, nm, 'd')
        return ('dirlist', nm, '=', gen_list(rng, run, depth - 1, allow_bad, rng.randint(0, 3)))
    note_created(created, nm, 'd')
    return ('dircopy', nm, '=', pick_src(rng, run))


def pick_src(rng, run):
    return rng.weighted([(0, 2), (1, 5), (2, 4), (3, 1), (4, 1)])


def gen_list(rng, run, depth, allow_bad, n):
    created = {}
    return [gen_entry(rng, run, depth, allow_bad, created) for _ in range(n)]


TOP_NAMES = ['d', 'd', 'd', 'g', 'd/e']


def forbidden_templates(run):
    """(name template, kind); %s = where the marker goes when the name itself can carry it"""
    out_abs = os.path.join(run.outside, '%s')
    return [('..', 'dotdot'), ('../%s', 'dotdot'), ('a/..', 'dotdot'), ('a/../%s', 'dotdot'), ('a/../../%s', 'dotdot'),
            ('./..', 'dotdot'), ('../..', 'dotdot'), ('../../%s', 'dotdot'), ('a/b/../../..', 'dotdot'), ('../a/%s', 'dotdot'),
            ('..//%s', 'dotdot'), ('a/../..', 'dotdot'),
            (out_abs, 'absolute'), (os.path.join(run.outside, 'sub', '%s'), 'absolute'), (run.outside, 'absolute'),
            ('', 'other'), ('a:%s', 'other'), ('%s;b', 'other')]


def gen_forbidden(rng, run):
    """ONE FILE-LIST instruction with ONE forbidden FILE-NAME, in every shape: file / dir, without contents / = / +=,
    at the top of the list or nested, the forbidden part first / last / in the middle of the name; the entry (or the
    contents of it) is called MARKER.  Returns (instructions, components of the populated directory, kind)."""
    tmpl, kind = rng.choice(forbidden_templates(run))
    nm = tmpl % MARKER if '%s' in tmpl else tmpl
    carries = '%s' in tmpl
    marker_list = [('file', MARKER, ('=', 'marker'))]
    shape = rng.below(9)
    if shape == 0:
        e = ('file', nm, None)
    elif shape == 1:
        e = ('file', nm, ('=', 'x'))
    elif shape == 2:
        e = ('file', nm, ('+=', 'x'))
    elif shape == 3:
        e = ('dir', nm)
    elif shape == 4:
        e = ('dirlist', nm, '=', marker_list)
    elif shape in (5, 6):
        e = ('dirlist', nm, '+=', marker_list)          # a directory that may well exist: the parent, the directory itself
    elif shape == 7:
        e = ('dircopy', nm, '=', run.nsrc)
    else:
        e = ('dircopy', nm, '+=', run.nsrc)
    del carries
    lst = []
    if rng.chance(0.6):
        lst.append(rng.choice([('dir', 'a'), ('dirlist', 'a', '=', [('dir', 'b')]), ('file', 'a/b/c', None), ('dir', 'a/b')]))
    lst.append(e)
    if rng.chance(0.3):
        lst.append(('file', 'after', None))
    for _ in range(rng.weighted([(0, 3), (1, 4), (2, 3)])):
        w = rng.choice(['inner', 'sub', 'w/v', 's'])
        lst = [('dirlist', w, '=', lst)]
        if rng.chance(0.3):
            lst.insert(0, ('file', 'sibling', None))
        if rng.chance(0.5):
            # the SAME name again at this level, after the entry that holds the forbidden name:
            # create + append, create + clash, several appends
            for _k in range(rng.weighted([(1, 3), (2, 1)])):
                lst.append(rng.choice([('dirlist', w, '+=', [('file', 'b', None)]), ('dirlist', w, '+=', []), ('dir', w),
                                       ('dircopy', w, '+=', 1), ('dirlist', w, '=', []), ('file', w, None),
                                       ('dirlist', w, '+=', [('dirlist', 'q', '=', [('file', 'r', ('=', 'x'))])])]))
    top = rng.choice([['d'], ['d'], ['top', 'inner'], ['g', 'h', 'i']])
    if rng.chance(0.25):
        instrs = [('make', ('dir', '/'.join(top))), ('make', ('dirlist', '/'.join(top), '+=', lst))]
    else:
        instrs = [('make', ('dirlist', '/'.join(top), '=', lst))]
    return instrs, top, kind


SRC_TOP_NAMES = ['a', 'b', 'c', 'f', 'lf', 'ld', 'dang']          # the names at the top of the copy sources


def gen_scenario(rng, run):
    """a directory that exists, symbolic links put into it, then something that adds to it"""
    out = []
    r = rng.below(3)
    if r == 0:
        out.append(('make', ('dir', 'd')))
    elif r == 1:
        out.append(('make', ('dirlist', 'd', '=', gen_list(rng, run, 1, False, rng.randint(0, 2)))))
    else:
        out.append(('make', ('dircopy', 'd', '=', rng.choice([0, 1, 2]))))
    for _ in range(rng.randint(1, 2)):
        kind = rng.weighted([('dangling', 8), ('homefile', 2)])
        out.append(('symlink', ['d', rng.choice(SRC_TOP_NAMES + ['x.txt', 'k'])], kind))
    r = rng.below(10)
    if r < 5:
        out.append(('make', ('dircopy', 'd', '+=', rng.below(run.nsrc))))
    elif r < 9:
        out.append(('make', ('dirlist', 'd', '+=', gen_list(rng, run, 1, False, rng.randint(1, 3)))))
    else:
        out.append(('make', ('dirlist', 'g', '=', [('dircopy', 'k', '=', rng.below(run.nsrc))])))
    return out


def gen_instrs(rng, run):
    """1-4 instructions; the first usually creates d; later ones append to / clash with what exists"""
    if rng.chance(0.15):
        return gen_scenario(rng, run)
    n = rng.weighted([(1, 4), (2, 4), (3, 2), (4, 1)])
    out = []
    allow_bad = rng.chance(0.25)
    top = {}                      # what exists at the top of the act directory (as far as the generator knows)
    for k in range(n):
        r = rng.below(100)
        dirs = sorted(x for x in top if top[x] == 'd')
        if dirs and r < 20:
            # a symbolic link inside a directory that exists
            parent = rng.choice(dirs).split('/')
            kind = rng.weighted([('dangling', 8), ('homefile', 2), ('homedir', 1)])
            if kind == 'homedir':
                comps = parent + ['zlink']          # a name no FILE-NAME of the generator uses
            else:
                comps = parent + [rng.choice(SRC_TOP_NAMES + ['x.txt', 'e'])]
            out.append(('symlink', comps, kind))
            continue
        if dirs and r < 55:
            d = rng.choice(dirs)
            if rng.chance(0.7):
                e = ('dirlist', d, '+=', gen_list(rng, run, 2, allow_bad, rng.randint(0, 4)))
            else:
                e = ('dircopy', d, '+=', pick_src(rng, run))
        elif r < 65:
            nm = rng.choice(['f', 'd', 'd/a', 'd/b/c', 'g/f'])
            if top.get(nm) == 'f':
                e = ('file', nm, ('+=', 'more') if rng.chance(0.75) else None)
            else:
                e = ('file', nm, rng.choice([None, ('=', 'top'), ('=', ''), ('=', 'x')]) if rng.chance(0.9) else ('+=', 'more'))
                if e[2] is None or e[2][0] == '=':
                    note_created(top, nm, 'f')
        elif r < 70:
            nm = rng.choice(TOP_NAMES)
            e = ('dir', nm)
            note_created(top, nm, 'd')
        else:
            nm = rng.choice(TOP_NAMES)
            if top.get(nm) == 'd':
                md = '+=' if rng.chance(0.85) else '='
            else:
                md = '=' if rng.chance(0.9) else '+='
            if r < 92:
                e = ('dirlist', nm, md, gen_list(rng, run, 2, allow_bad, rng.randint(0, 4)))
            else:
                e = ('dircopy', nm, md, pick_src(rng, run))
            if md == '=':
                note_created(top, nm, 'd')
        out.append(('make', e))
    return out


def entry_features(e, f, depth=0):
    k = e[0]
    if '/' in e[1].strip('/.'):
        f.add('multi-component-name')
    if k == 'file' and e[2] is not None and e[2][0] == '+=':
        f.add('file+=')
    if k in ('dirlist', 'dircopy') and e[2] == '+=':
        f.add('dir+=')
    if k == 'dircopy':
        f.add('copy-of')
    if k == 'dirlist':
        if depth >= 1:
            f.add('nested')
        for x in e[3]:
            entry_features(x, f, depth + 1)


def instrs_features(instrs):
    f = set()
    for i in instrs:
        if i[0] == 'symlink':
            f.add('pre-existing-link')
        else:
            entry_features(i[1], f)
    return f


CORPUS_P = [
    # the populated directory already holds a dangling link named like a file of the source
    [('make', ('dir', 'd')), ('symlink', ['d', 'a'], 'dangling'), ('make', ('dircopy', 'd', '+=', 1))],
    [('make', ('dirlist', 'd', '=', [('file', 'a/b/c', ('=', 'x')), ('file', 'a/b/c', ('+=', 'y')), ('dir', 'a/k'),
                                      ('dirlist', 'a', '+=', [('file', 'b/z', None)])]))],
    [('make', ('dirlist', 'd', '=', [('file', 'a', None), ('file', 'a/b', None)]))],
    [('make', ('dirlist', 'd', '=', [('file', '../e', None)]))],
    [('make', ('dirlist', 'd', '=', [('dirlist', 'sub', '=', [('file', 'a/../../../e', ('=', 'x'))])]))],
    [('make', ('dirlist', 'd', '=', [('dircopy', 'k', '=', 2), ('dircopy', 'k', '+=', 1)]))],
    [('make', ('dircopy', 'd', '=', 4))],
    [('make', ('dircopy', 'd', '=', 3))],
    [('make', ('dirlist', 'd', '=', [('dirlist', '.', '+=', [('file', 'q', None)])]))],
]


_ML = [('file', MARKER, ('=', 'marker'))]
CORPUS_FORBIDDEN = [
    ([('make', ('dirlist', 'd', '=', [('dirlist', '..', '+=', _ML)]))], ['d'], 'dotdot'),
    ([('make', ('dirlist', 'top', '=', [('dirlist', 'inner', '=', [('dirlist', '..', '+=', _ML)])]))], ['top'], 'dotdot'),
    ([('make', ('dirlist', 'top/inner', '=', [('dirlist', '..', '+=', _ML)]))], ['top', 'inner'], 'dotdot'),
    ([('make', ('dirlist', 'top/inner', '=', [('dircopy', '..', '+=', 5)]))], ['top', 'inner'], 'dotdot'),
    ([('make', ('dirlist', 'd', '=', [('dir', 'a'), ('dirlist', 'a/..', '+=', _ML)]))], ['d'], 'dotdot'),
    ([('make', ('dirlist', 'top/inner', '=', [('dir', 'a'), ('dirlist', 'a/../..', '+=', _ML)]))], ['top', 'inner'], 'dotdot'),
    ([('make', ('dirlist', 'top/inner', '=', [('file', '../' + MARKER, None)]))], ['top', 'inner'], 'dotdot'),
    ([('make', ('dirlist', 'd', '=', [('dirlist', '.', '+=', [('dirlist', '..', '+=', _ML)])]))], ['d'], 'dotdot'),
    # a repeated name at one level; the EARLIER entry holds the forbidden name (depth 1 and 2)
    ([('make', ('dirlist', 'd', '=', [('dirlist', 's', '=', [('file', '../../' + MARKER, ('=', 'x'))]),
                                      ('dirlist', 's', '+=', [('file', 'b', None)])]))], ['d'], 'dotdot'),
    ([('make', ('dirlist', 'd', '=', [('dirlist', 's', '=', [('dirlist', 't', '=', [('file', '../../../' + MARKER, None)])]),
                                      ('dir', 's')]))], ['d'], 'dotdot'),
    ([('make', ('dirlist', 'top/inner', '=', [('dirlist', 's', '=', [('dirlist', '..', '+=', [('dirlist', '..', '+=', _ML)])]),
                                              ('dirlist', 's', '+=', []), ('dirlist', 's', '+=', [])]))], ['top', 'inner'], 'dotdot'),
]


# =================================================================================================
# generators: trees and matchers
# =================================================================================================
NODE_NAMES = ['a', 'b', 'c', 'a.txt', 'b.tar.gz', '.x', 'c.', 'sub', 'd1', 'e.txt', '.hidden', 'f.', 'a..b', '..c', 'x.y.', '...', '.x.y']
DOT_NAMES = ['.hidden', 'f.', 'a..b', '..c', 'x.y.', '...', '.x.y', '.x', 'c.', 'b.tar.gz']
STR_PATS = ['*', 'a*', '*.txt', '?', '*.*', '[ab]*', '.*', 'sub', '*b*', '.', '', '?*', '.?*', '*.', '.[!.]*']
RE_STR_PATS = ['^a', r'\.txt$', '^$', r'^\.', r'\.$', 'b', r'^[^.]*$', r'\..*\.', r'^\.[a-z]+$']          # name|stem|.. ~ REGEX
RE_PATH_PATS = ['/sub/', r'\.txt$', '/a$', r'T[0-9]+/[^/]*$', r'/d1/.*x', r'/\.[^/]*$']             # path ~ REGEX
# TEXT-MATCHERs the model treats as opaque: the verdict on a text comes from the `contents` INSTRUCTION
TM_OPAQUE = ["num-lines == 1", "num-lines >= 1", "matches 'l'", "matches -full 'x'", "any line : contents matches 'e'",
             "every line : contents matches '^y'", "-transformed-by char-case -to-upper equals 'X'",
             "-transformed-by filter contents matches 'h' num-lines == 1", "! matches 'y'"]
# PROGRAMs of the `run` matcher: the path is the last argument, exit code 0 = match
RUN_PROGS = [('% test -d', ['test', '-d']), ('% test -f', ['test', '-f']), ('% test -L', ['test', '-L']),
             ('% test -s', ['test', '-s']), ('% test -e', ['test', '-e'])]
PATH_PATS = ['*', '*/a', 'sub/*', '*/*/*', '*.txt', 'T*/*', '*/d1/*', 'a']
CMPS = [('==', 'CEq'), ('!=', 'CNe'), ('<', 'CLt'), ('<=', 'CLe'), ('>', 'CGt'), ('>=', 'CGe')]
PARTS = [('name', 'PName'), ('stem', 'PStem'), ('suffixes', 'PSuffixes'), ('suffix', 'PSuffix')]
FTYPES = [('file', 'TFile'), ('dir', 'TDir'), ('symlink', 'TSymlink')]


def gen_tree(rng, max_nodes, max_depth):
    """python tree: ('f', content) | ('d', {name: node}) | ('l', target-components | None)"""
    root = ('d', {})
    dirs = [((), root, 0)]
    n = rng.randint(0, max_nodes)
    nodes = []
    for _ in range(n):
        comps, d, depth = rng.choice(dirs)
        nm = rng.choice(NODE_NAMES) if rng.chance(0.6) else rng.choice(DOT_NAMES)
        if nm in d[1]:
            continue
        if rng.chance(0.45) and depth < max_depth:
            node = ('d', {})
            dirs.append((comps + (nm,), node, depth + 1))
        else:
            node = ('f', rng.choice(CONTENTS))
        d[1][nm] = node
        nodes.append((comps + (nm,), node))

    def link_free(node):
        if node[0] == 'l':
            return False
        if node[0] == 'd':
            return all(link_free(x) for x in node[1].values())
        return True

    for _ in range(rng.randint(0, 3)):
        comps, d, depth = rng.choice(dirs)
        nm = rng.choice(['ln', 'lk', 'a', 'sub'])
        if nm in d[1]:
            continue
        r = rng.below(10)
        if r < 3 or not nodes:
            d[1][nm] = ('l', None)
            continue
        tcomps, tnode = rng.choice(nodes)
        here = comps + (nm,)
        if not link_free(tnode) or here[:len(tcomps)] == tcomps:
            continue          # no cycles: the target holds no link and is not an ancestor of the link
        d[1][nm] = ('l', tcomps)
    # links that cannot be resolved for another reason than "no such file": a cycle, or a target below a regular file
    if rng.chance(0.2):
        for _ in range(rng.randint(1, 2)):
            add_unresolvable(rng, rng.choice(dirs)[1], nodes)
    return root


def add_unresolvable(rng, d, nodes):
    kind = rng.below(3)
    free = [n for n in ['self', 'ping', 'pong', 'thru', 'lp', 'a', 'sub'] if n not in d[1]]
    if not free:
        return
    files = [n for n, v in d[1].items() if v[0] == 'f']
    if kind == 0 or (kind == 2 and not files):
        nm = rng.choice(free)
        d[1][nm] = ('l', ('RAW', nm))                       # self -> self
    elif kind == 1 and len(free) >= 2:
        a, b = rng.sample(free, 2)
        d[1][a] = ('l', ('RAW', b))                         # ping -> pong -> ping
        d[1][b] = ('l', ('RAW', a))
    elif files:
        d[1][rng.choice(free)] = ('l', ('RAW', rng.choice(files) + '/x'))     # through a regular file: ENOTDIR


SIB_DIRS = ['A', 'B', 'C', 'D']
SIB_FILES = ['x', 'y', 'z', 'x.txt']


def gen_sibling_tree(rng):
    """2-4 sibling directories whose contents are different subsets of a small set of names"""
    root = ('d', {})
    for nm in rng.sample(SIB_DIRS, rng.randint(2, 4)):
        d = ('d', {})
        for f in SIB_FILES:
            if rng.chance(0.45):
                d[1][f] = ('f', rng.choice(CONTENTS)) if rng.chance(0.85) else ('d', {'x': ('f', '')} if rng.chance(0.5) else {})
        root[1][nm] = d
    if rng.chance(0.3):
        root[1]['r.txt'] = ('f', 'x')
    if rng.chance(0.2):
        add_unresolvable(rng, root if rng.chance(0.6) else root[1][rng.choice(sorted(k for k, v in root[1].items() if v[0] == 'd'))], [])
    if rng.chance(0.2):
        root[1]['ln'] = ('l', (rng.choice(sorted(root[1])),)) if rng.chance(0.7) else ('l', None)
    return root


def gen_reapplied(rng, base, paths):
    """ONE files-matcher primitive applied, within one instruction, to each of several directories"""
    top = [c for c in paths if len(c) == 1]
    names = sorted({c[-1] for c in paths if len(c) == 2}) or SIB_FILES
    pool = sorted(set(names) | set(rng.sample(SIB_FILES, 2)))
    r = rng.below(10)
    if r < 7:
        k = rng.randint(1, min(3, len(pool)))
        fc = [(nm, None if rng.chance(0.6) else ('type', rng.below(2))) for nm in rng.sample(pool, k)]
        fc = with_duplicates(rng, fc, 0, [])
        inner = ('matches', rng.chance(0.4), fc)
    elif r < 8:
        inner = ('num', rng.below(6), rng.randint(0, 3))
    elif r < 9:
        inner = ('any', ('name', 0, rng.below(len(STR_PATS))))
    else:
        inner = ('sel', ('type', 0), ('matches', False, [(nm, None) for nm in rng.sample(pool, min(2, len(pool)))]))
    applied = ('dirc', None if rng.chance(0.7) else (None, None), inner)
    all_dirs = all(os.path.isdir(os.path.join(base, *c)) for c in top)
    g = applied if (all_dirs and rng.chance(0.5)) else ('and', ('type', 1), applied)
    cnt = sum(1 for c in top if os.path.isdir(os.path.join(base, *c)))
    outer = rng.weighted([('any', 4), ('every', 3), ('selnum', 3), ('notany', 1), ('selempty', 1), ('prune', 1)])
    if outer == 'any':
        fsm = ('any', g)
    elif outer == 'every':
        fsm = ('every', ('or', ('not', ('type', 1)), applied)) if not all_dirs or rng.chance(0.5) else ('every', applied)
    elif outer == 'selnum':
        fsm = ('sel', g, ('num', rng.below(6), rng.randint(0, max(1, cnt))))
    elif outer == 'notany':
        fsm = ('not', ('any', g))
    elif outer == 'selempty':
        fsm = ('sel', g, ('empty',))
    else:
        return ('dirc', (None, None), ('prune', g, ('num', rng.below(6), rng.randint(0, 6))))
    return ('dirc', None, fsm)


def gen_nested_partial(rng):
    """nested -selection (2-3 deep) / -with-pruned + -selection where ONE matcher is partial (HARD_ERROR on files of the wrong
    type: dir-contents .., contents .., ) and the others decide which files it is asked about; both nestings"""
    kind = rng.below(3)
    if kind == 0:
        guard, partial = ('type', 1), ('dirc', rng.choice([None, None, (None, None), (None, 0)]),
                                       rng.choice([('empty',), ('num', rng.below(6), rng.randint(0, 2)), ('not', ('empty',))]))
    elif kind == 1:
        guard, partial = ('type', 0), ('contents', gen_tm(rng))
    else:
        guard = rng.choice([('not', ('type', 1)), ('not', ('type', 2)), ('name', 0, rng.below(len(STR_PATS))),
                            ('namere', 3, rng.below(len(RE_STR_PATS)))])
        partial = rng.choice([('contents', gen_tm(rng)), ('dirc', None, ('empty',))])
    chain = [guard, partial]
    if rng.chance(0.35):
        chain.insert(rng.below(3), rng.choice([('name', 0, rng.below(len(STR_PATS))), ('not', ('type', 2)), ('const', True)]))
    if rng.chance(0.4):
        chain.reverse()           # the partial matcher outermost: documented HARD_ERROR when a file of the wrong type is there
    leaf = rng.choice([('num', rng.below(6), rng.randint(0, 3)), ('empty',), ('any', ('type', rng.below(3))),
                       ('every', ('type', rng.below(3))), ('not', ('empty',))])
    fsm = leaf
    use_prune = rng.chance(0.25)
    for i, f in enumerate(reversed(chain)):
        fsm = ('sel', f, fsm)
        if use_prune and i == rng.below(len(chain)):
            fsm = ('prune', rng.choice([('type', 2), ('name', 0, rng.below(len(STR_PATS))), ('dirc', None, ('empty',))]), fsm)
    if use_prune and rng.chance(0.5):
        # two prune matchers, one of them partial on directories (contents ..): which one is asked first matters
        pr = [('type', 1), ('contents', ('empty',))]
        if rng.chance(0.5):
            pr.reverse()
        fsm = ('prune', pr[0], ('prune', pr[1], fsm))
    cfg = (None, None) if use_prune or rng.chance(0.3) else None
    return ('dirc', cfg, fsm)


def make_tree(base, node, rng):
    """create on disk; links last (their targets must exist for relative links to be meaningful)"""
    links = []

    def go(p, nd, comps):
        if nd[0] == 'f':
            with open(p, 'w') as f:
                f.write(nd[1])
        elif nd[0] == 'd':
            os.mkdir(p)
            items = list(nd[1].items())
            rng.shuffle(items)
            for n, c in items:
                go(os.path.join(p, n), c, comps + (n,))
        else:
            links.append((p, nd[1]))

    go(base, node, ())
    for p, t in links:
        if t is None:
            os.symlink('no-such-target', p)
        elif t[0] == 'RAW':
            os.symlink(t[1], p)
        else:
            os.symlink(os.path.relpath(os.path.join(base, *t), os.path.dirname(p)), p)


def traversal_paths(base, max_len=9):
    """all component lists reachable from base following links to directories"""
    out = []

    def go(p, comps):
        if len(comps) > max_len:
            raise RuntimeError('tree too deep (cycle?)')
        for e in os.scandir(p):
            c = comps + [e.name]
            out.append(c)
            try:
                isd = e.is_dir()
            except OSError:          # a cyclic link / a link through a regular file
                isd = False
            if isd:
                go(e.path, c)

    go(base, [])
    return out


def gen_tm(rng):
    r = rng.below(12)
    if r < 3:
        return ('empty',)
    if r < 6:
        return ('eq', rng.choice(CONTENTS))
    if r < 10:
        return ('opaque', rng.below(len(TM_OPAQUE)))
    return ('not', gen_tm(rng))


def gen_cfg(rng):
    if rng.chance(0.3):
        return None

    def d():
        return None if rng.chance(0.45) else rng.randint(0, 3)

    return (d(), d())


def gen_fm(rng, depth, rels, safe):
    """safe: no matcher that can give HARD_ERROR at this level (used to keep most cases error-free)"""
    r = rng.below(100)
    if depth <= 0 or r < 50:
        q = rng.below(100)
        if q < 5:
            return ('const', rng.chance(0.5))
        if q < 45:
            return ('type', rng.below(3))
        if q < 60:
            return ('name', rng.weighted([(0, 2), (1, 3), (2, 3), (3, 5)]), rng.below(len(STR_PATS)))
        if q < 68:
            return ('namere', rng.weighted([(0, 2), (1, 3), (2, 3), (3, 5)]), rng.below(len(RE_STR_PATS)))
        if q < 73:
            return ('path', rng.below(len(PATH_PATS)))
        if q < 77:
            return ('pathre', rng.below(len(RE_PATH_PATS)))
        if q < 80:
            return ('run', rng.below(len(RUN_PROGS)))
        if safe:
            return ('type', rng.below(3))
        if q < 90 or depth <= 0:
            return ('contents', gen_tm(rng))
        return ('dirc', gen_cfg(rng), gen_fsm(rng, depth - 1, rels))
    if r < 62:
        return ('not', gen_fm(rng, depth - 1, rels, safe))
    if r < 80:
        # guarded forms: the type is tested before contents / dir-contents are asked for
        if rng.chance(0.5):
            return ('and', ('type', 0), ('contents', gen_tm(rng)))
        return ('and', ('type', 1), ('dirc', gen_cfg(rng), gen_fsm(rng, depth - 1, rels)))
    k = 'and' if r < 90 else 'or'
    return (k, gen_fm(rng, depth - 1, rels, safe), gen_fm(rng, depth - 1, rels, safe))


FC_VARIANTS = [lambda s: s, lambda s: './' + s, lambda s: s.replace('/', '//'), lambda s: s + '/', lambda s: s]


def gen_fc(rng, depth, rels):
    n = rng.randint(0, 4)
    out = []
    for _ in range(n):
        if rels and rng.chance(0.8):
            nm = rng.choice(FC_VARIANTS)('/'.join(rng.choice(rels)))
        else:
            nm = rng.choice(['a', 'zz', 'sub/a', 'a/../a', '/abs', 'b'])
        fm = None if rng.chance(0.5) else gen_fm(rng, min(depth, 1), rels, rng.chance(0.8))
        out.append((nm, fm))
    return with_duplicates(rng, out, depth, rels)


def with_duplicates(rng, fc, depth, rels):
    """the same name on several lines: a matcher-less line before / after a line with a matcher, two matchers,
    the same path written differently"""
    if fc and rng.chance(0.35):
        for _ in range(rng.randint(1, 2)):
            nm, fm = rng.choice(fc)
            nm2 = rng.choice([nm, nm, './' + nm if nm and not nm.startswith('/') else nm])
            fm2 = None if (fm is not None and rng.chance(0.6)) else (('type', rng.below(3)) if rng.chance(0.6)
                                                                       else gen_fm(rng, min(depth, 1), rels, True))
            i = rng.below(len(fc) + 1)
            fc = fc[:i] + [(nm2, fm2)] + fc[i:]
    return fc


def gen_fsm(rng, depth, rels):
    r = rng.below(100)
    if depth <= 0 or r < 45:
        q = rng.below(100)
        if q < 4:
            return ('const', rng.chance(0.5))
        if q < 16:
            return ('empty',)
        if q < 45:
            return ('num', rng.below(6), rng.randint(0, 6))
        if q < 62:
            return ('every', gen_fm(rng, depth - 1, rels, rng.chance(0.8)))
        if q < 78:
            return ('any', gen_fm(rng, depth - 1, rels, rng.chance(0.8)))
        return ('matches', rng.chance(0.5), gen_fc(rng, depth - 1, rels))
    if r < 62:
        return ('sel', gen_fm(rng, depth - 1, rels, rng.chance(0.9)), gen_fsm(rng, depth - 1, rels))
    if r < 78:
        return ('prune', gen_fm(rng, depth - 1, rels, rng.chance(0.9)), gen_fsm(rng, depth - 1, rels))
    if r < 86:
        return ('not', gen_fsm(rng, depth - 1, rels))
    k = 'and' if r < 93 else 'or'
    return (k, gen_fsm(rng, depth - 1, rels), gen_fsm(rng, depth - 1, rels))


def full_condition_of(rels, base):
    """the FILES-CONDITION that lists every file below base with its type (for populate-then-match style cases)"""
    out = []
    for c in rels:
        p = os.path.join(base, *c)
        t = 2 if os.path.islink(p) else (1 if os.path.isdir(p) else 0)
        out.append(('/'.join(c), ('type', t)))
    return out


# ---- rendering ----
def tm_src(m, simple):
    if m[0] == 'empty':
        return 'is-empty'
    if m[0] == 'eq':
        return "equals '%s'" % m[1]
    if m[0] == 'opaque':
        return '( ' + TM_OPAQUE[m[1]] + ' )'
    s = '! ' + tm_src(m[1], True)
    return '( %s )' % s if simple else s


def cfg_src(cfg):
    if cfg is None:
        return ''
    s = '-recursive '
    if cfg[0] is not None:
        s += '-min-depth %d ' % cfg[0]
    if cfg[1] is not None:
        s += '-max-depth %d ' % cfg[1]
    return s


def fm_src(m, simple):
    k = m[0]
    if k == 'const':
        return 'constant ' + ('true' if m[1] else 'false')
    if k == 'type':
        return 'type ' + FTYPES[m[1]][0]
    if k == 'name':
        return "%s '%s'" % (PARTS[m[1]][0], STR_PATS[m[2]])
    if k == 'path':
        return "path '%s'" % PATH_PATS[m[1]]
    if k == 'namere':
        return "%s ~ '%s'" % (PARTS[m[1]][0], RE_STR_PATS[m[2]])
    if k == 'pathre':
        return "path ~ '%s'" % RE_PATH_PATS[m[1]]
    if k == 'run':
        return 'run ' + RUN_PROGS[m[1]][0] + '\n'       # the arguments of a PROGRAM extend to the end of the line
    if k == 'contents':
        return 'contents ' + tm_src(m[1], True)
    if k == 'dirc':
        return 'dir-contents ' + cfg_src(m[1]) + fsm_src(m[2], True)
    if k == 'not':
        s = '! ' + fm_src(m[1], True)
        return '( %s )' % s if simple else s
    op = ' && ' if k == 'and' else ' || '
    return '( ' + fm_src(m[1], True) + op + fm_src(m[2], True) + ' )'


def fc_src(fc):
    if not fc:
        return '{ }'
    lines = []
    for nm, fm in fc:
        lines.append('  ' + (nm if nm else "''") + ('' if fm is None else ' : ' + fm_src(fm, True).rstrip('\n')))
    return '{\n' + '\n'.join(lines) + '\n}'


def fsm_src(m, simple):
    k = m[0]
    if k == 'const':
        return 'constant ' + ('true' if m[1] else 'false')
    if k == 'empty':
        return 'is-empty'
    if k == 'num':
        return 'num-files %s %d' % (CMPS[m[1]][0], m[2])
    if k == 'every':
        return 'every file : ' + fm_src(m[1], True)
    if k == 'any':
        return 'any file : ' + fm_src(m[1], True)
    if k == 'matches':
        return 'matches %s%s' % ('-full ' if m[1] else '', fc_src(m[2]))
    if k == 'sel':
        return '-selection %s %s' % (fm_src(m[1], True), fsm_src(m[2], True))
    if k == 'prune':
        return '-with-pruned %s %s' % (fm_src(m[1], True), fsm_src(m[2], True))
    if k == 'not':
        s = '! ' + fsm_src(m[1], True)
        return '( %s )' % s if simple else s
    op = ' && ' if k == 'and' else ' || '
    return '( ' + fsm_src(m[1], True) + op + fsm_src(m[2], True) + ' )'


# ---- Coq terms ----
def tm_term(m):
    if m[0] == 'empty':
        return 'TEmpty'
    if m[0] == 'eq':
        return '(TEquals %s)' % ctext(m[1])
    if m[0] == 'opaque':
        return '(TOpaque %s)' % cnat(m[1])
    return '(TNot %s)' % tm_term(m[1])


def cfg_term(cfg):
    if cfg is None:
        return 'NonRec'
    return '(Rec %s %s)' % (copt(cfg[0], cnat), copt(cfg[1], cnat))


def fm_term(m):
    k = m[0]
    if k == 'const':
        return '(FConst %s)' % cbool(m[1])
    if k == 'type':
        return '(FType %s)' % FTYPES[m[1]][1]
    if k == 'name':
        return '(FName %s %s)' % (PARTS[m[1]][1], cnat(m[2]))
    if k == 'path':
        return '(FPath %s)' % cnat(m[1])
    if k == 'namere':
        return '(FNameRe %s %s)' % (PARTS[m[1]][1], cnat(m[2]))
    if k == 'pathre':
        return '(FPathRe %s)' % cnat(m[1])
    if k == 'run':
        return '(FRun %s)' % cnat(m[1])
    if k == 'contents':
        return '(FContents %s)' % tm_term(m[1])
    if k == 'dirc':
        return '(FDirContents %s %s)' % (cfg_term(m[1]), fsm_term(m[2]))
    if k == 'not':
        return '(FNot %s)' % fm_term(m[1])
    return '(%s %s %s)' % ('FAnd' if k == 'and' else 'FOr', fm_term(m[1]), fm_term(m[2]))


def fc_term(fc):
    t = 'FCNil'
    for nm, fm in reversed(fc):
        t = '(FCName %s %s)' % (ctext(nm), t) if fm is None else '(FCNameM %s %s %s)' % (ctext(nm), fm_term(fm), t)
    return t


def fsm_term(m):
    k = m[0]
    if k == 'const':
        return '(SConst %s)' % cbool(m[1])
    if k == 'empty':
        return 'SEmpty'
    if k == 'num':
        return '(SNumFiles %s %s)' % (CMPS[m[1]][1], cZ(m[2]))
    if k == 'every':
        return '(SEvery %s)' % fm_term(m[1])
    if k == 'any':
        return '(SAny %s)' % fm_term(m[1])
    if k == 'matches':
        return '(SMatches %s %s)' % (cbool(m[1]), fc_term(m[2]))
    if k == 'sel':
        return '(SSelection %s %s)' % (fm_term(m[1]), fsm_term(m[2]))
    if k == 'prune':
        return '(SPrune %s %s)' % (fm_term(m[1]), fsm_term(m[2]))
    if k == 'not':
        return '(SNot %s)' % fsm_term(m[1])
    return '(%s %s %s)' % ('SAnd' if k == 'and' else 'SOr', fsm_term(m[1]), fsm_term(m[2]))


def matcher_features(m, f, under=()):
    """constructs used; 'sel-over-prune' / 'prune-over-sel' record how the two model modifiers nest"""
    if not isinstance(m, tuple):
        return
    k = m[0]
    if k in ('sel', 'prune', 'matches', 'every', 'any', 'num', 'empty', 'dirc', 'contents', 'name', 'path', 'type', 'namere', 'pathre', 'run'):
        f.add(k if k != 'matches' else ('matches-full' if m[1] else 'matches'))
    if k == 'dirc' and m[1] is not None:
        f.add('recursive')
        if m[1][0] is not None:
            f.add('min-depth')
        if m[1][1] is not None:
            f.add('max-depth')
    if k == 'sel' and 'prune' in under:
        f.add('prune-over-sel')
    if k == 'prune' and 'sel' in under:
        f.add('sel-over-prune')
    if k == 'matches':
        for nm, fm in m[2]:
            if fm is not None:
                matcher_features(fm, f, ())
        return
    if k == 'contents':
        def opq(t):
            return t[0] == 'opaque' or (t[0] == 'not' and opq(t[1]))
        if opq(m[1]):
            f.add('contents-opaque-text-matcher')
        return
    nxt = under + (k,) if k in ('sel', 'prune') else (() if k == 'dirc' else under)
    for x in m[1:]:
        if isinstance(x, tuple) and x and isinstance(x[0], str):
            matcher_features(x, f, nxt)


def iter_nodes(t):
    if isinstance(t, dict):
        yield t
        if 'symlink' not in t:
            for v in t.values():
                yield from iter_nodes(v)


def has_dup_names(m):
    if not isinstance(m, tuple) or not m:
        return False
    if m[0] == 'matches':
        ks = [norm_name(nm) for nm, _ in m[2]]
        return len(ks) != len(set(ks)) or any(has_dup_names(fm) for _, fm in m[2])
    return any(has_dup_names(x) for x in m[1:] if isinstance(x, tuple))


def pats_used(m, acc):
    """acc: dict of sets: 'name' (part, pat), 'path' pat, 'namere' (part, pat), 'pathre' pat, 'opaque' k, 'run' k"""
    if not isinstance(m, tuple) or not m:
        return
    k = m[0]
    if k in ('name', 'namere'):
        acc[k].add((m[1], m[2]))
    elif k in ('path', 'pathre', 'run'):
        acc[k].add(m[1])
    elif k == 'opaque':
        acc['opaque'].add(m[1])
    elif k == 'matches':
        for nm, fm in m[2]:
            pats_used(fm, acc)
    else:
        for x in m[1:]:
            if isinstance(x, tuple):
                pats_used(x, acc)


def py_name_part(part, s):
    if part == 0:
        return s
    if part == 1:
        return s.split('.', 1)[0]
    i = s.find('.') if part == 2 else s.rfind('.')
    return '' if i == -1 else s[i:]


def file_contents_below(base, paths):
    out = set()
    for c in [[]] + paths:
        p = os.path.join(base, *c)
        if os.path.isfile(p):
            with open(p, 'r', errors='replace') as f:
                out.add(f.read())
    return sorted(out)


def oracle_tables(run, m, root_name, base, paths):
    """answers of the Python libraries / the real text matcher / the real program for exactly the questions the case can ask"""
    import re
    import subprocess
    acc = {'name': set(), 'path': set(), 'namere': set(), 'pathre': set(), 'opaque': set(), 'run': set()}
    pats_used(m, acc)
    names = {root_name} | {c[-1] for c in paths}
    st, pt, rst, rpt, tt, rt = set(), [], set(), [], [], []
    for part, pat in sorted(acc['name']):
        for s in sorted({py_name_part(part, n) for n in names}):
            st.add('(%s, %s, %s)' % (cnat(pat), ctext(s), cbool(fnmatch.fnmatch(s, STR_PATS[pat]))))
    for part, pat in sorted(acc['namere']):
        for s in sorted({py_name_part(part, n) for n in names}):
            rst.add('(%s, %s, %s)' % (cnat(pat), ctext(s), cbool(re.compile(RE_STR_PATS[pat]).search(s) is not None)))
    for pat in sorted(acc['path']):
        for c in [[]] + paths:
            real = pathlib.Path(os.path.join(base, *c))
            pt.append('(%s, %s, %s)' % (cnat(pat), cpath([root_name] + c), cbool(real.match(PATH_PATS[pat]))))
    for pat in sorted(acc['pathre']):
        for c in [[]] + paths:
            real = str(pathlib.Path(os.path.join(base, *c)))
            rpt.append('(%s, %s, %s)' % (cnat(pat), cpath([root_name] + c), cbool(re.compile(RE_PATH_PATS[pat]).search(real) is not None)))
    if acc['opaque']:
        for k in sorted(acc['opaque']):
            for txt in file_contents_below(base, paths):
                v = run.text_oracle(k, txt)
                tt.append('(%s, %s, %s)' % (cnat(k), ctext(txt), 'None' if v is None else '(Some %s)' % cbool(v)))
    for k in sorted(acc['run']):
        for c in [[]] + paths:
            rc = subprocess.call(RUN_PROGS[k][1] + [os.path.join(base, *c)], stdout=subprocess.DEVNULL, stderr=subprocess.DEVNULL)
            rt.append('(%s, %s, (Some %s))' % (cnat(k), cpath([root_name] + c), cbool(rc == 0)))

    le = []
    for c in [[]] + paths:
        q = os.path.join(base, *c)
        if os.path.islink(q) and not os.path.exists(q):
            try:
                os.stat(q)
                bad = False
            except FileNotFoundError:
                bad = False
            except OSError:
                bad = True
            le.append('(0%%nat, %s, %s)' % (cpath([root_name] + c), cbool(bad)))

    def lst(xs, ty):
        xs = sorted(xs) if isinstance(xs, set) else xs
        return clist(xs) if xs else '(@nil (%s))' % ty
    return ' '.join([lst(st, 'nat * name * bool'), lst(pt, 'nat * path * bool'), lst(rst, 'nat * name * bool'),
                     lst(rpt, 'nat * path * bool'), lst(tt, 'nat * list N * option bool'), lst(rt, 'nat * path * option bool'),
                     lst(le, 'nat * path * bool')])


VERDICT = {'PASS': 'VPass', 'FAIL': 'VFail', 'HARD_ERROR': 'VHardError', 'VALIDATION_ERROR': 'VValidationError'}
STATUS = {'PASS': 'SPass', 'HARD_ERROR': 'SHardError', 'VALIDATION_ERROR': 'SValidationError'}


# =================================================================================================
# the check
# =================================================================================================
def collect(ctx, res, rng, n_p, n_trees, per_tree, scratch_name='c15-run', p_forbidden=0.14):
    """run the implementation; returns (terms, descriptions)"""
    run = Runner(os.path.join(ctx.work, scratch_name))
    terms, descs = [], []
    # ---------------- populate cases ----------------
    for j in range(len(CORPUS_P) + len(CORPUS_FORBIDDEN) + n_p):
        populated, fkind = None, None
        if j < len(CORPUS_P):
            instrs = CORPUS_P[j]
        elif j < len(CORPUS_P) + len(CORPUS_FORBIDDEN):
            instrs, populated, fkind = CORPUS_FORBIDDEN[j - len(CORPUS_P)]
        elif rng.chance(p_forbidden):
            instrs, populated, fkind = gen_forbidden(rng, run)
        else:
            instrs = gen_instrs(rng, run)
        o = run.run_populate(instrs, populated)
        if o['status'] not in STATUS:
            # SYNTAX_ERROR: the generator wrote something exactly does not parse; INTERNAL_ERROR etc.: report
            kind = 'property' if o['status'] not in ('SYNTAX_ERROR',) else None
            d = {'kind': 'populate', 'case': o['text'], 'status': o['status'], 'stderr': o['stderr']}
            if kind:
                res.prop_failures.append(Failure('property', d, 'status other than PASS / HARD_ERROR / VALIDATION_ERROR'))
            else:
                res.errors.append('generator produced a case that is a SYNTAX_ERROR: %r %r' % (o['text'], o['stderr']))
            continue
        term = '(CP (PCase %s %s %s %s))' % (clist([run.instr_term(i) for i in instrs]), STATUS[o['status']], o['tree_term'],
                                              cbool(not o['problems']))
        terms.append(term)
        f = instrs_features(instrs)
        if fkind is not None:
            f.add('forbidden-name-stream: ' + fkind)
        descs.append({'kind': 'populate', 'case': o['text'], 'status': o['status'], 'act_dir_afterwards': o['tree'],
                      'outside_problems': o['problems'], 'stderr': o['stderr'], 'features': sorted(f)})
        res.count('populate: status ' + o['status'])
        for x in f:
            res.count('populate: ' + x)
        if len(f) >= 2 or (o['status'] == 'HARD_ERROR' and f):
            res.nontrivial.add(('p', o['text']))
        # round trip on the directory d of a run that passed (trees without symbolic links)
        if o['status'] == 'PASS' and not o['problems'] and isinstance((o['tree'] or {}).get('d'), dict) \
                and 'symlink' not in o['tree']['d'] and rng.chance(0.7):
            lst = Runner.listing_of(o['tree']['d'])
            if lst is not None:
                rt = run.run_round_trip(instrs, 'd', lst)
                d = {'kind': 'round-trip', 'case': rt['text'], 'verdict': rt['status'], 'stderr': rt['stderr']}
                if rt['status'] not in VERDICT:
                    if rt['status'] == 'SYNTAX_ERROR':
                        res.errors.append('generator produced a case that is a SYNTAX_ERROR: %r %r' % (rt['text'], rt['stderr']))
                    else:
                        res.prop_failures.append(Failure('property', d, 'verdict other than PASS / FAIL / HARD_ERROR / VALIDATION_ERROR'))
                else:
                    fc = 'FCNil'
                    for c, t in reversed(lst):
                        fc = '(FCNameM %s (FType %s) %s)' % (ctext('/'.join(c)), 'TFile' if t == 'file' else 'TDir', fc)
                    terms.append('(CR (RCase %s %s %s %s))' % (clist([run.instr_term(i) for i in instrs]), ctext('d'), fc,
                                                            VERDICT[rt['status']]))
                    descs.append(d)
                    res.count('round trip: verdict ' + rt['status'])
                    if len(lst) >= 3:
                        res.nontrivial.add(('r', rt['text']))
    # ---------------- matcher cases ----------------
    for k in range(n_trees):
        root_name = 'T%d' % k
        base = os.path.join(run.mhome, root_name)
        quick_small = rng.chance(0.25)
        siblings = rng.chance(0.2)
        pt = gen_sibling_tree(rng) if siblings else gen_tree(rng, 3 if quick_small else 9, 3)
        make_tree(base, pt, rng)
        tree_term = term_of_path(base)
        paths = traversal_paths(base)
        rels1 = [c for c in paths if len(c) <= 2]
        has_link = '(Link' in tree_term
        for q in range(per_tree):
            r = rng.below(100)
            n_dirs = sum(1 for c in paths if len(c) == 1 and os.path.isdir(os.path.join(base, *c)))
            if n_dirs >= 2 and rng.chance(0.65 if siblings else 0.1):
                m = gen_reapplied(rng, base, paths)
            elif rng.chance(0.09):
                m = gen_nested_partial(rng)
            elif r < 8 and paths:
                # the condition that lists exactly the files of the tree (recursively), sometimes spoiled
                fc = full_condition_of(paths, base)
                if rng.chance(0.4) and fc:
                    i = rng.below(len(fc))
                    fc = fc[:i] + fc[i + 1:] if rng.chance(0.5) else fc[:i] + [(fc[i][0], ('type', (fc[i][1][1] + 1) % 3))] + fc[i + 1:]
                rng.shuffle(fc)
                m = ('dirc', (None, None), ('matches', rng.chance(0.7), fc))
            elif r < 20 and paths:
                # count-sensitive: the files whose name part matches a pattern, counted; n at the boundary
                part = rng.weighted([(0, 1), (1, 3), (2, 3), (3, 5)])
                pat = rng.below(len(STR_PATS))
                rec = rng.chance(0.5)
                pool = paths if rec else [c for c in paths if len(c) == 1]
                cnt = sum(1 for c in pool if fnmatch.fnmatch(py_name_part(part, c[-1]), STR_PATS[pat]))
                fsm = ('sel', ('name', part, pat), ('num', rng.choice([0, 1, 3, 4]), cnt))
                if rng.chance(0.3):
                    fsm = ('every', ('or', ('name', part, pat), ('not', ('name', part, rng.below(len(STR_PATS))))))
                m = ('dirc', (None, None) if rec else None, fsm)
            elif r < 80:
                m = ('dirc', gen_cfg(rng), gen_fsm(rng, rng.randint(1, 3), rels1))
            else:
                m = gen_fm(rng, rng.randint(1, 3), rels1, False)
            form = 'dir-contents' if rng.chance(0.5) else 'exists'
            o = run.run_matcher(root_name, m, form)
            d = {'kind': 'matcher', 'case': o['text'], 'tree': json_tree(base), 'verdict': o['status'], 'stderr': o['stderr']}
            if o['status'] not in VERDICT:
                if o['status'] == 'SYNTAX_ERROR':
                    res.errors.append('generator produced a case that is a SYNTAX_ERROR: %r %r' % (o['text'], o['stderr']))
                else:
                    res.prop_failures.append(Failure('property', d, 'verdict other than PASS / FAIL / HARD_ERROR / VALIDATION_ERROR'))
                continue
            tabs = oracle_tables(run, m, root_name, base, paths)
            terms.append('(CM (MCase %s %s %s %s %s))' % (ctext(root_name), tree_term, fm_term(m), tabs, VERDICT[o['status']]))
            f = set()
            matcher_features(m, f)
            if repr(m).count("'dirc'") >= 2 and n_dirs >= 2:
                f.add('matcher applied to several directories')
            if repr(m).count("('sel', ") >= 2 and ("'contents'" in repr(m) or repr(m).count("'dirc'") >= 2):
                f.add('nested selections with a partial matcher')
            if any(isinstance(v, dict) and v.get('unresolvable') for v in iter_nodes(d['tree'])):
                f.add('tree with an unresolvable link (cycle / through a file)')
            if has_dup_names(m):
                f.add('files-condition with a repeated name')
            d['features'] = sorted(f)
            descs.append(d)
            res.count('matcher: verdict ' + o['status'])
            for x in f:
                res.count('matcher: ' + x)
            if has_link:
                res.count('matcher: tree with symbolic link')
            if len(f) >= 3 and len(paths) >= 3:
                res.nontrivial.add(('m', root_name, o['text']))
        shutil.rmtree(base)
    shutil.rmtree(run.root, ignore_errors=True)
    return terms, descs


def evaluate(ctx, res, terms, descs, tag='cases'):
    cb, pb, errs = common.run_shards('C15', IMPORTS, 'check_case', terms, shard_size=250, tag=tag)
    res.errors += errs
    for i in pb:
        d = descs[i]
        what = {'populate': 'the tree in the act directory is not the tree the FILE-LIST denotes (or a forbidden FILE-NAME was not '
                            'rejected, or something outside was touched)',
                'matcher': 'the verdict differs from the declarative semantics of the matcher on this tree',
                'round-trip': 'after populating, matches -full of the complete typed listing of the directory does not hold'}[d['kind']]
        res.prop_failures.append(Failure('property', d, what))
    for i in cb:
        d = descs[i]
        res.disagreements.append(Failure('correspondence', d, 'the model predicts a different %s' %
                                         ('tree / status' if d['kind'] == 'populate' else 'verdict')))
    with open(os.path.join(ctx.work, 'C15_%s_failures.json' % tag), 'w') as f:
        json.dump({'property': [descs[i] for i in pb], 'correspondence': [descs[i] for i in cb]}, f, indent=1, default=str)


def run(ctx, res):
    rng = ctx.rng
    n_p, n_trees, per_tree = (1400, 260, 8) if ctx.quick else (12000, 2400, 10)
    res.rule = ('populate cases: 1-4 setup instructions dir/file PATH (= | +=) (FILE-LIST up to 3 levels | dir-contents-of one of 5 '
                'sources with links) and ln -s (dangling / to file / to dir) into the directory, names from a 16-name alphabet with '
                'multi-component, ./, //, trailing / and "." forms, 4 % forbidden names (.., absolute, separators, empty); 14 % of the '
                'populate cases come from the forbidden-name stream: ONE forbidden FILE-NAME (.. first / last / in the middle / alone, '
                'absolute into a watched directory, empty, with : or ;) as file / dir, without contents / = / += (list or copy), at the '
                'top of the list or nested 1-2 levels (half of the enclosing entries followed at the same level by entries with the SAME '
                'name: create + append, create + clash, several appends), instruction path of 1-3 components, with an entry called MARKER-c15 that is '
                'searched for in the whole sandbox root and the watched directory; '
                'matcher cases: trees of <= 9 nodes + <= 3 symbolic links (to file, to directory, dangling) + in 20 % of the trees 1-2 links '
                'that cannot be resolved (self -> self, ping <-> pong, target below a regular file) as leaves, depth <= 3, '
                'random creation order; expressions of depth <= 3 over every files-matcher and file-matcher of the model (glob and regex '
                'name/stem/suffixes/suffix/path patterns, contents with is-empty/equals/! and 9 opaque text matchers, run with 5 '
                'programs, type, dir-contents), every '
                'min/max depth in {none,0..3}, both nestings of -selection / -with-pruned, 9 % nested -selection chains (2-3 deep, '
                'optionally with -with-pruned) in which ONE matcher is partial (dir-contents / contents: HARD_ERROR on the wrong '
                'type) and the others decide which files it sees, both orders, 20 % of the trees are 2-4 sibling directories '
                'holding different subsets of 4 names on which ONE matches / num-files / any-file primitive is applied to every '
                'directory within one instruction (any / every file, -selection, -with-pruned over dir-contents), 35 % of the '
                'FILES-CONDITIONs repeat a name (matcher-less line before / after a line with a matcher, ./ variant),  FILES-CONDITIONs built from the paths '
                'of the tree (with ./ // variants, duplicates, missing names) and the complete listing of the tree. non-trivial := '
                'populate: >= 2 of {multi-component name, +=, nesting, copy, pre-existing link} or a HARD_ERROR with one; '
                'matcher: >= 3 different constructs on a tree with >= 3 reachable files; round trip (70 % of the passed populate runs whose d '
                'has no link: same setup + dir-contents d : -recursive matches -full {typed listing of d}): >= 3 files; distinct := '
                'distinct case text')
    terms, descs = collect(ctx, res, rng, n_p, n_trees, per_tree)
    res.evaluations = len(terms)
    res.samples = [{'case': d['case'], 'observed': d.get('status') or d.get('verdict')} for d in descs[9:13] + descs[-3:]]
    evaluate(ctx, res, terms, descs)
    # how many matcher cases the declarative semantics decides (the others involve a documented HARD_ERROR)
    mterms = ['(match %s with CM c => (sem_defined c, true) | _ => (true, true) end)' % t for t in terms if t.startswith('(CM')][:3000]
    und, _, errs = common.run_shards('C15', IMPORTS, '(fun x => x)', mterms, shard_size=250, tag='semdef')
    res.errors += errs
    pterms = ['(match %s with CP c => (negb (pcase_out_of_scope c), true) | _ => (true, true) end)' % t for t in terms if t.startswith('(CP')][:3000]
    oos, _, errs = common.run_shards('C15', IMPORTS, '(fun x => x)', pterms, shard_size=400, tag='scope')
    res.errors += errs
    res.extra['populate_cases_sampled_for_scope'] = len(pterms)
    res.extra['populate_cases_out_of_scope_write_through_link'] = len(oos)
    res.extra['matcher_cases_sampled_for_definedness'] = len(mterms)
    res.extra['matcher_cases_with_declarative_verdict'] = len(mterms) - len(und)


def search(ctx, res):
    """failing-input search (cheap): a second run from a derived seed, half of the populate cases from the forbidden-name
    stream (the inputs of the rejection / confinement clause), fewer trees"""
    rng = common.Rng(ctx.seed * 7919 + 13)
    r2 = common.Result()
    terms, descs = collect(ctx, r2, rng, 900, 110, 8, scratch_name='c15-search', p_forbidden=0.5)
    evaluate(ctx, r2, terms, descs, tag='search')
    return r2.prop_failures


def replay(ctx, payload):
    case = payload.get('case') or (payload.get('correspondence_disagreements') or [{}])[0].get('case')
    print(json.dumps(case, indent=1, default=str))
    if not case or 'case' not in case:
        return 0
    run = Runner(os.path.join(ctx.work, 'c15-replay'))
    if case.get('kind') == 'matcher':
        print('(matcher case: re-create the tree under a directory T<k> next to the case file and run it with exactly)')
    else:
        r = run.run_case(run.phome, case['case'], keep=True)
        print('status now:', run.status_of(r))
        for n in os.listdir(run.sbx):
            print(json.dumps(json_tree(os.path.join(run.sbx, n, 'act')), indent=1))
    shutil.rmtree(run.root, ignore_errors=True)
    return 0


def gen_tables(ctx):
    common.source_tie('C15')
