"""Mutation demonstration for the source tie (harness/py2coq.py): for each entry a scratch copy of the source tree is
edited (never /repo), translated, and the UNCHANGED hand-written proof coq/Proofs/SrcTie<Target>.v is re-checked
against the translation in a scratch Coq directory (never /verif/coq).

  harmless edits (renamed locals, comments, an equivalent re-formulation) -> the proof must still check
  changed logic (swapped comparison, dropped branch, other constant)       -> the proof must FAIL (or the translator refuse)

usage: PYTHONPATH=harness:/repo/src /venv/bin/python harness/py2coq_demo.py [Target ...]
"""
import os
import re
import shutil
import subprocess
import sys

import common
import py2coq

XP = 'exactly_lib/impls/instructions/multi_phase/utils/instruction_from_parts_for_executing_program.py'
AC = 'exactly_lib/type_val_deps/types/program/sdv/accumulated_components.py'
RO = 'exactly_lib/type_val_deps/types/path/rel_opts_configuration.py'
PSE = 'exactly_lib/execution/impl/phase_step_executors.py'
OPE = 'exactly_lib/definitions/os_proc_env.py'
SY = 'exactly_lib/symbol/symbol_syntax.py'
FM = 'exactly_lib/impls/types/files_matcher/models.py'
IS = 'exactly_lib/test_case/phases/instruction_settings.py'
EI = 'exactly_lib/impls/instructions/multi_phase/environ/impl.py'
AP = 'exactly_lib/processing/parse/act_phase_source_parser.py'
SF = 'exactly_lib/test_suite/file_reading/suite_file_reading.py'
FR = 'exactly_lib/execution/full_execution/result.py'
EV = 'exactly_lib/processing/exit_values.py'
SP = 'exactly_lib/test_suite/reporters/simple_progress_reporter.py'
JU = 'exactly_lib/test_suite/reporters/junit.py'
COMB = 'exactly_lib/util/interval/w_inversion/combinations.py'
INTS = 'exactly_lib/util/interval/w_inversion/intervals.py'
TR = 'exactly_lib/impls/types/string_transformer/impl/filter/line_nums/transformers.py'
RM = 'exactly_lib/impls/types/string_transformer/impl/filter/line_nums/range_merge.py'

# (target, name, expected 'pass'|'fail', file, [(old, new), ...])
CASES = [
    ('LineNums', 'unchanged', 'pass', RM, []),
    ('LineNums', 'h1-rename-locals', 'pass', RM, [
        ('current', 'cur'), ('ret_val', 'result'), ('from_to', 'seg'), ('next_', 'nxt'),
        ('segments_to_process', 'todo'), ('first_segment', 'fst_seg'), ('non_merged_segments_output', 'rest_out'),
        ('def _merge_head_to(initial: int,', 'def _merge_head_to(start: int,'),
        ('        if seg[0] <= initial + 1:\n            initial = max(initial, seg[1])',
         '        if seg[0] <= start + 1:\n            start = max(start, seg[1])'),
        ('            non_merged__out__sorted.append(seg)\n\n    return initial',
         '            non_merged__out__sorted.append(seg)\n\n    return start')]),
    ('LineNums', 'h2-comments-docstrings', 'pass', RM, [
        ('def _can_be_one(first: FromTo, second: FromTo) -> bool:\n',
         'def _can_be_one(first: FromTo, second: FromTo) -> bool:\n    """adjacent or overlapping"""\n    # a comment\n'),
        ('    ret_val = []\n\n    current = segments[0]', '    ret_val = []  # the output\n    current = segments[0]')]),
    ('LineNums', 'h3-equivalent-comparison', 'pass', RM, [
        ('return first[1] + 1 >= second[0]', 'return second[0] <= first[1] + 1'),
        ('if from_to[1] >= initial - 1:', 'if initial - 1 <= from_to[1]:')]),
    ('LineNums', 'm1-can_be_one-strict', 'fail', RM, [('return first[1] + 1 >= second[0]', 'return first[1] + 1 > second[0]')]),
    ('LineNums', 'm2-head-not-adjacent', 'fail', RM, [('if from_to[0] <= initial + 1:', 'if from_to[0] <= initial:')]),
    ('LineNums', 'm3-drop-tail-is-1-branch', 'fail', RM, [
        ('        if tail_from == 1:\n            return MergedRanges.everything()\n', '')]),
    ('LineNums', 'm4-tail-append-instead-of-insert', 'fail', RM, [
        ('non_merged__out__sorted.insert(0, from_to)', 'non_merged__out__sorted.append(from_to)')]),
    ('LineNums', 'm5-tail-max-instead-of-min', 'fail', RM, [('min(partitioning.tail_from)', 'max(partitioning.tail_from)')]),
    ('LineNums', 'm6-not-sorted', 'fail', RM, [
        ('sorted(filter(_is_valid_segment, partitioning.segments))', 'list(filter(_is_valid_segment, partitioning.segments))')]),
    ('LineNums', 'm7-first-line-number-constant', 'fail', 'exactly_lib/type_val_prims/matcher/line_matcher.py',
     [('FIRST_LINE_NUMBER = 1', 'FIRST_LINE_NUMBER = 0')]),
    ('LineNums', 'm8-merge-keeps-smaller-upper', 'fail', RM, [('max(current[1], next_[1])', 'next_[1]')]),
    ('LineNums', 'r1-aliasing-refused', 'refused', RM, [
        ('    ret_val = []\n\n    current = segments[0]', '    ret_val = []\n    alias = ret_val\n    current = segments[0]'),
        ('    ret_val.append(current)\n    return ret_val', '    ret_val.append(current)\n    return alias')]),
    ('LineNums', 'r2-while-loop-refused', 'refused', RM, [
        ('    for from_to in segments:\n        if from_to[0] <= initial + 1:',
         '    while False:\n        pass\n    for from_to in segments:\n        if from_to[0] <= initial + 1:')]),
    ('LineNums', 't-h1-elif-to-nested-if', 'pass', TR, [
        ('        if line_num == 0:\n            return sources.empty(self._source_model,\n                                 self._transformer_description)\n        elif line_num > 0:\n            return sources.single_non_neg_int_source(',
         '        if line_num == 0:\n            return sources.empty(self._source_model,\n                                 self._transformer_description)\n        if line_num > 0:\n            return sources.single_non_neg_int_source(')]),
    ('LineNums', 't-m1-single-line-off-by-one', 'fail', TR, [('self._source_model, line_num - 1)', 'self._source_model, line_num)')]),
    ('LineNums', 't-m2-empty-range-test-ge', 'fail', TR, [
        ('    def _lower_and_upper__non_neg(self, lower: int, upper: int) -> StringSource:\n        if lower > upper:',
         '    def _lower_and_upper__non_neg(self, lower: int, upper: int) -> StringSource:\n        if lower >= upper:')]),
    ('LineNums', 't-m3-upper-not-zero-based', 'fail', TR, [('        if upper > 0:\n            upper -= 1\n', '')]),
    ('LineNums', 't-m4-wrong-source-for-neg-upper', 'fail', TR, [
        ('            return sources.upper_neg_limit_source(self._mem_buff_size,', '            return sources.lower_neg_limit_source(self._mem_buff_size,')]),
    ('LineNums', 't-m5-arguments-swapped', 'fail', TR, [('self._source_model, lower, upper)\n\n    def _lower_and_upper__neg', 'self._source_model, upper, lower)\n\n    def _lower_and_upper__neg')]),
    ('LineNums', 't-m6-everything-treated-as-empty', 'fail', TR, [('        elif merged_ranges.is_everything():\n            return model',
                                                                   '        elif merged_ranges.is_everything():\n            return sources.empty(model, self._get_structure)')]),
    ('LineNums', 'seeded-C13-m2 (state kept in the transformer)', 'refused', 'seeded/C13-m2/patch.diff', []),
    ('Interval', 'unchanged', 'pass', COMB, []),
    ('Interval', 'h1-rename-locals', 'pass', COMB, [('non_none_lowers', 'los'), ('non_none_uppers', 'his'), ('ret_val', 'acc')]),
    ('Interval', 'h2-equivalent-rewrite', 'pass', COMB, [('if lower is not None and upper is not None and lower > upper',
                                                          'if upper is not None and lower is not None and upper < lower')]),
    ('Interval', 'm1-union-lower-max', 'fail', COMB, [('        min(non_none_lowers)\n    )\n    upper = (\n        None\n        if len(', '        max(non_none_lowers)\n    )\n    upper = (\n        None\n        if len(')]),
    ('Interval', 'm2-intersection-ge', 'fail', COMB, [('and lower > upper', 'and lower >= upper')]),
    ('Interval', 'm3-of-wrong-class', 'fail', COMB, [('return UpperLimit(upper)', 'return LowerLimit(upper)')]),
    ('Interval', 'm4-union-anyof', 'fail', COMB, [('if len(non_none_lowers) != 2', 'if not non_none_lowers')]),
    ('Interval', 'm5-upper-inversion-off-by-one', 'fail', INTS, [('return LowerLimit(self._upper + 1)', 'return LowerLimit(self._upper)')]),
    ('Interval', 'm6-custom-is_empty-of-inversion', 'fail', INTS, [('return self._pos.is_empty', 'return self._inversion.is_empty')]),
    ('Interval', 'm7-custom-inversion-not-swapped', 'fail', INTS, [('return WithCustomInversion(self._inversion, self._pos)',
                                                                    'return WithCustomInversion(self._pos, self._inversion)')]),
    ('Interval', 'm8-union-drop-empty-check', 'fail', COMB, [('def union(a: IntIntervalWInversion, b: IntIntervalWInversion) -> IntIntervalWInversion:\n    if a.is_empty:\n        return b\n',
                                                             'def union(a: IntIntervalWInversion, b: IntIntervalWInversion) -> IntIntervalWInversion:\n')]),
    ('Interval', 'seeded-C13-m1 (Finite.inversion)', 'fail', 'seeded/C13-m1/patch.diff', []),
    ('Outcome', 'unchanged', 'pass', FR, []),
    ('Outcome', 'h1-rename-parameter', 'pass', FR, [('ps: Optional[ExecutionFailureStatus]', 'partial_status: Optional[ExecutionFailureStatus]'),
                                                    ('if ps is ExecutionFailureStatus.FAIL', 'if partial_status is ExecutionFailureStatus.FAIL'),
                                                    ('elif ps is None', 'elif partial_status is None'), ('    if ps is None:', '    if partial_status is None:'),
                                                    ('FullExeResultStatus(ps.value)', 'FullExeResultStatus(partial_status.value)')]),
    ('Outcome', 'h2-reorder-dict-entries', 'pass', EV, [
        ('    FullExeResultStatus.PASS: _for_full_result(0, FullExeResultStatus.PASS, ForegroundColor.GREEN),\n', ''),
        ('    FullExeResultStatus.FAIL: _for_full_result(32,', '    FullExeResultStatus.PASS: _for_full_result(0, FullExeResultStatus.PASS, ForegroundColor.GREEN),\n    FullExeResultStatus.FAIL: _for_full_result(32,')]),
    ('Outcome', 'm1-xfail-xpass-swapped', 'fail', FR, [('            return FullExeResultStatus.XFAIL\n        elif ps is None:\n            return FullExeResultStatus.XPASS',
                                                         '            return FullExeResultStatus.XPASS\n        elif ps is None:\n            return FullExeResultStatus.XFAIL')]),
    ('Outcome', 'm2-xfail-exit-code', 'fail', EV, [('_for_full_result(32 + 1, FullExeResultStatus.XFAIL', '_for_full_result(32, FullExeResultStatus.XFAIL')]),
    ('Outcome', 'm3-enum-value-changed', 'fail', FR, [('    HARD_ERROR = 99\n', '    HARD_ERROR = 98\n')]),
    ('Outcome', 'm4-mode-test-changed', 'fail', FR, [('if execution_mode is TestCaseStatus.FAIL', 'if execution_mode is TestCaseStatus.PASS')]),
    ('Outcome', 'm5-no-execution-exit-code', 'fail', EV, [('NO_EXECUTION_EXIT_CODE = 65', 'NO_EXECUTION_EXIT_CODE = 64')]),
    ('Outcome', 'm6-identifier-of-other-status', 'fail', EV, [('_for_full_result(128, FullExeResultStatus.HARD_ERROR,', '_for_full_result(128, FullExeResultStatus.INTERNAL_ERROR,')]),
    ('Reporters', 'unchanged', 'pass', SP, []),
    ('Reporters', 'h1-reorder-set', 'pass', SP, [('{FullExeResultStatus.PASS,\n                    FullExeResultStatus.SKIPPED,', '{FullExeResultStatus.SKIPPED,\n                    FullExeResultStatus.PASS,')]),
    ('Reporters', 'm1-xfail-not-success', 'fail', SP, [('                    FullExeResultStatus.SKIPPED,\n                    FullExeResultStatus.XFAIL\n', '                    FullExeResultStatus.SKIPPED,\n')]),
    ('Reporters', 'm2-junit-hard-error-is-failure', 'fail', JU, [('FAIL_STATUSES = {FullExeResultStatus.FAIL,', 'FAIL_STATUSES = {FullExeResultStatus.FAIL, FullExeResultStatus.HARD_ERROR,')]),
    ('Reporters', 'm3-junit-validation-not-error', 'fail', JU, [('                  FullExeResultStatus.VALIDATION_ERROR,\n', '')]),
    ('ProgVerdict', 'unchanged', 'pass', XP, []),
    ('ProgVerdict', 'h1-rename-parameter', 'pass', XP, [
        ('def result_to_sh(result: ExecutionResultAndStderr) -> sh.SuccessOrHardError:\n    if result.exit_code != 0:\n        return sh.new_sh_hard_error(\n            top_lvl_error_msg_rendering.non_zero_exit_code_msg(result.program,\n                                                               result.exit_code,\n                                                               result.stderr_contents)',
         'def result_to_sh(res: ExecutionResultAndStderr) -> sh.SuccessOrHardError:\n    if res.exit_code != 0:\n        return sh.new_sh_hard_error(\n            top_lvl_error_msg_rendering.non_zero_exit_code_msg(res.program,\n                                                               res.exit_code,\n                                                               res.stderr_contents)')]),
    ('ProgVerdict', 'm1-nonzero-exit-is-success', 'fail', XP, [('def result_to_sh(result: ExecutionResultAndStderr) -> sh.SuccessOrHardError:\n    if result.exit_code != 0:',
                                                              'def result_to_sh(result: ExecutionResultAndStderr) -> sh.SuccessOrHardError:\n    if result.exit_code == 1:')]),
    ('ProgVerdict', 'm2-assert-hard-error-instead-of-fail', 'fail', XP, [('        return pfh.new_pfh_fail(', '        return pfh.new_pfh_hard_error(')]),
    ('ProgVerdict', 'm3-ignore-exit-code-not-unconditional', 'fail', 'exactly_lib/impls/instructions/multi_phase/utils/instruction_part_utils.py',
     [('    def translate_for_assertion(self, error_message) -> pfh.PassOrFailOrHardError:\n        return pfh.new_pfh_pass()',
       '    def translate_for_assertion(self, error_message) -> pfh.PassOrFailOrHardError:\n        return pfh.new_pfh_fail(error_message)')]),
    ('ProgVerdict', 'm4-sh-is_success-inverted', 'fail', 'exactly_lib/test_case/result/sh.py', [('        return self[0] is None', '        return self[0] is not None')]),
    ('ProgVerdict', 'seeded-C10-m1', 'fail', 'seeded/C10-m1/patch.diff', []),
    ('Accumulate', 'unchanged', 'pass', AC, []),
    # the defect of this seeded change is in program_symbol_sdv.py (not translated); accumulated_components.py only gains a property
    ('Accumulate', 'seeded-C10-m2 (defect elsewhere)', 'pass', 'seeded/C10-m2/patch.diff', []),
    ('Accumulate', 'h1-rename-parameter', 'pass', AC, [('additional', 'extra')]),
    ('Accumulate', 'm1-stdin-order-swapped', 'fail', AC, [('tuple(self.stdin) + tuple(additional.stdin)', 'tuple(additional.stdin) + tuple(self.stdin)')]),
    ('Accumulate', 'm2-arguments-order-swapped', 'fail', 'exactly_lib/type_val_deps/types/program/sdv/arguments.py',
     [('list_sdvs.concat([self._arguments, arguments_sdv.arguments_list])', 'list_sdvs.concat([arguments_sdv.arguments_list, self._arguments])')]),
    ('Accumulate', 'm3-transformations-not-accumulated', 'fail', AC, [('tuple(self.transformations) + tuple(additional.transformations))', 'tuple(self.transformations))')]),
    ('Relativity', 'unchanged', 'pass', RO, []),
    ('Relativity', 'h1-reorder-set', 'pass', RO, [('PathRelativityVariants({RelOptionType.REL_ACT,\n                                                                RelOptionType.REL_TMP,',
                                                    'PathRelativityVariants({RelOptionType.REL_TMP,\n                                                                RelOptionType.REL_ACT,')]),
    ('Relativity', 'm1-absolute-always-accepted', 'fail', 'exactly_lib/tcfs/relativity_validation.py', [('        return accepted_relativities.absolute', '        return True')]),
    ('Relativity', 'm2-creation-accepts-result-dir', 'fail', RO, [('PathRelativityVariants({RelOptionType.REL_ACT,\n                                                                RelOptionType.REL_TMP,',
                                                                   'PathRelativityVariants({RelOptionType.REL_ACT, RelOptionType.REL_RESULT,\n                                                                RelOptionType.REL_TMP,')]),
    ('Relativity', 'm3-creation-accepts-absolute', 'fail', RO, [('                                                                RelOptionType.REL_CWD},\n                                                               False)',
                                                                 '                                                                RelOptionType.REL_CWD},\n                                                               True)')]),
    ('Relativity', 'm4-creation-default-act', 'fail', RO, [('RelOptionsConfiguration(RELATIVITY_VARIANTS_FOR_FILE_CREATION,\n                                                        RelOptionType.REL_CWD)',
                                                            'RelOptionsConfiguration(RELATIVITY_VARIANTS_FOR_FILE_CREATION,\n                                                        RelOptionType.REL_ACT)')]),
    ('Relativity', 'm5-enum-member-renumbered', 'fail', 'exactly_lib/tcfs/path_relativity.py', [('    REL_ACT = 3\n    REL_TMP = 4\n    REL_RESULT = 5\n\n\nclass RelSdsOptionType', '    REL_ACT = 4\n    REL_TMP = 3\n    REL_RESULT = 5\n\n\nclass RelSdsOptionType')]),
    ('ExecSteps', 'unchanged', 'pass', PSE, []),
    ('ExecSteps', 'h1-conditional-expression-to-if', 'pass', PSE, [
        ('    return (\n        None\n        if res.is_success\n        else PartialInstructionControlledFailureInfo(\n            PartialControlledFailureEnum.HARD_ERROR,\n            res.failure_message)\n    )',
         '    if res.is_success:\n        return None\n    return PartialInstructionControlledFailureInfo(PartialControlledFailureEnum.HARD_ERROR, res.failure_message)')]),
    ('ExecSteps', 'm1-validation-error-becomes-hard-error', 'fail', PSE, [('            PartialControlledFailureEnum.VALIDATION_ERROR,', '            PartialControlledFailureEnum.HARD_ERROR,')]),
    ('ExecSteps', 'm2-pass-test-inverted', 'fail', PSE, [('if res.status is pfh.PassOrFailOrHardErrorEnum.PASS:', 'if res.status is not pfh.PassOrFailOrHardErrorEnum.PASS:')]),
    ('ExecSteps', 'm3-enum-value-changed', 'fail', 'exactly_lib/execution/impl/single_instruction_executor.py', [('    FAIL = 2\n    HARD_ERROR = 99', '    FAIL = 3\n    HARD_ERROR = 99')]),
    ('ExecSteps', 'm4-svh-validation-test', 'fail', 'exactly_lib/test_case/result/svh.py', [('        return self[0] is False', '        return self[0] is True')]),
    ('ExecSteps', 'm5-sh-hard-error-ignored', 'fail', PSE, [('        None\n        if res.is_success\n', '        None\n        if res.is_success or res.is_hard_error\n')]),
    ('ExecSteps', 'seeded-C01-m4 (pfh hard error becomes FAIL)', 'fail', 'seeded/C01-m4/patch.diff', []),
    ('ExecSteps', 'seeded-C02-m6 (same function)', 'fail', 'seeded/C02-m6/patch.diff', []),
    ('Reporters', 'm4-suite-failed-tests-exit-code', 'fail', 'exactly_lib/test_suite/exit_values.py', [("ExitValue(4, 'ERROR'", "ExitValue(1, 'ERROR'")]),
    ('Reporters', 'm5-invalid-suite-identifier', 'fail', 'exactly_lib/test_suite/exit_values.py', [("ExitValue(3, 'INVALID_SUITE'", "ExitValue(3, 'INVALID'")]),
    ('Timeout', 'unchanged', 'pass', OPE, []),
    ('Timeout', 'm1-no-default-timeout', 'fail', OPE, [('TIMEOUT__DEFAULT = 60', 'TIMEOUT__DEFAULT = None')]),
    ('Timeout', 'm2-other-default-than-tabulated', 'fail', OPE, [('TIMEOUT__DEFAULT = 60', 'TIMEOUT__DEFAULT = 600')]),
    ('SymbolSyntax', 'unchanged', 'pass', SY, []),
    ('SymbolSyntax', 'm1-other-begin-delimiter', 'fail', SY, [("SYMBOL_REFERENCE_BEGIN = '@['", "SYMBOL_REFERENCE_BEGIN = '${'")]),
    ('LineNums', 'seeded-C05-m9 (_tr clamps to FIRST_LINE_NUMBER)', 'fail', 'seeded/C05-m9/patch.diff', []),
    ('Interval', 'seeded-C06-m10 (intersection >=)', 'fail', 'seeded/C06-m10/patch.diff', []),
    ('FilesDepth', 'unchanged', 'pass', FM, []),
    ('FilesDepth', 'h1-rename-parameter', 'pass', FM, [('    def _is_within_min_depth_limit(self, depth: int) -> bool:\n        return self._min_depth is None or depth >= self._min_depth',
                                                       '    def _is_within_min_depth_limit(self, d: int) -> bool:\n        return self._min_depth is None or d >= self._min_depth')]),
    ('FilesDepth', 'm1-min-depth-strict', 'fail', FM, [('depth >= self._min_depth', 'depth > self._min_depth')]),
    ('FilesDepth', 'm2-at-max-depth-ge', 'fail', FM, [('depth == self._max_depth', 'depth >= self._max_depth')]),
    ('FilesDepth', 'm3-no-max-means-at-max', 'fail', FM, [('return self._max_depth is not None and depth == self._max_depth', 'return self._max_depth is None or depth == self._max_depth')]),
    # changes the generator loop (os.scandir, queue, prune matcher): not translated, the behavioural checks of C15 catch it
    ('FilesDepth', 'seeded-C15-m9 (generator loop only)', 'pass', 'seeded/C15-m9/patch.diff', []),
    ('Settings', 'unchanged', 'pass', IS, []),
    ('Settings', 'h1-rename-parameter', 'pass', IS, [('    def set_timeout(self, seconds: Optional[int]):\n        self._timeout_in_seconds = seconds',
                                                    '    def set_timeout(self, secs: Optional[int]):\n        self._timeout_in_seconds = secs')]),
    ('Settings', 'm1-set_timeout-none-becomes-zero', 'fail', IS, [('        self._timeout_in_seconds = seconds', '        self._timeout_in_seconds = 0 if seconds is None else seconds')]),
    ('Settings', 'm2-set_environ-sets-other-field', 'fail', IS, [('        self._environ = x', '        self._default_environ_getter = x')]),
    ('Settings', 'm3-appliers-order-swapped', 'fail', EI, [
        ('        if Phase.ACT in self._phases:\n            appliers.append(factory.applier_for_act())\n        if Phase.NON_ACT in self._phases:\n            appliers.append(factory.applier_for_non_act())',
         '        if Phase.NON_ACT in self._phases:\n            appliers.append(factory.applier_for_non_act())\n        if Phase.ACT in self._phases:\n            appliers.append(factory.applier_for_act())')]),
    ('Settings', 'm4-act-env-modified-outside-setup', 'fail', EI, [
        ('    def applier_for_act(self) -> ModifierApplier:\n        return SequenceOfAppliers.empty()',
         '    def applier_for_act(self) -> ModifierApplier:\n        return ModifierApplierForNonSetupPhase(self.instruction_settings, self.app_env_constructor)')]),
    ('Settings', 'm5-factory-test-inverted', 'fail', EI, [('            if setup_phase_settings is None\n', '            if setup_phase_settings is not None\n')]),
    ('Settings', 'seeded-C19-m10 (default timeout kept apart)', 'fail', 'seeded/C19-m10/patch.diff', []),
    # changes the option parser (token parser): not translated
    ('Settings', 'seeded-C11-m10 (parser only)', 'pass', 'seeded/C11-m10/patch.diff', []),
    ('ActSource', 'unchanged', 'pass', AP, []),
    ('ActSource', 'h1-rename-parameter', 'pass', AP, [("def _un_escape_at_beginning_of_line(s: str) -> str:\n    if s[:2] == '\\\\[':\n        return '[' + s[2:]\n    if s[:2] == '\\\\\\\\':\n        return '\\\\' + s[2:]\n    return s",
                                                      "def _un_escape_at_beginning_of_line(line: str) -> str:\n    if line[:2] == '\\\\[':\n        return '[' + line[2:]\n    if line[:2] == '\\\\\\\\':\n        return '\\\\' + line[2:]\n    return line")]),
    ('ActSource', 'm1-keeps-second-character', 'fail', AP, [("        return '[' + s[2:]", "        return '[' + s[1:]")]),
    ('ActSource', 'm2-backslash-escape-dropped', 'fail', AP, [("    if s[:2] == '\\\\\\\\':\n        return '\\\\' + s[2:]\n", '')]),
    ('ActSource', 'seeded-C07-m10 (function replaced)', 'refused', 'seeded/C07-m10/patch.diff', []),
    ('SuiteConf', 'unchanged', 'pass', SF, []),
    ('SuiteConf', 'h1-rename-locals', 'pass', SF, [('suite_elements', 'for_suite'), ('case_elements', 'for_cases')]),
    ('SuiteConf', 'm1-lists-swapped', 'fail', SF, [('            if isinstance(element.instruction_info.instruction, ConfigurationSectionInstruction):\n                suite_elements.append(element)\n            else:\n                case_elements.append(element)',
                                                    '            if isinstance(element.instruction_info.instruction, ConfigurationSectionInstruction):\n                case_elements.append(element)\n            else:\n                suite_elements.append(element)')]),
    ('SuiteConf', 'm2-case-elements-prepended', 'fail', SF, [('                case_elements.append(element)', '                case_elements.insert(0, element)')]),
    ('SuiteConf', 'seeded-C17-m9 (itertools.groupby)', 'refused', 'seeded/C17-m9/patch.diff', []),
    # changes how the set is USED, not the set: outside what this tie covers (the behavioural checks of C16 catch it)
    ('Reporters', 'seeded-C16-m1 (use site only)', 'pass', 'seeded/C16-m1/patch.diff', []),
]

def deps(target):
    """the compiled files of /verif/coq the proof file needs (copied, not rebuilt): its dependency cone without the
    generated Src_ file"""
    seen, todo = [], ['Proofs/SrcTie%s.v' % target]
    while todo:
        f = todo.pop()
        if f in seen:
            continue
        seen.append(f)
        txt = re.sub(r'\(\*.*?\*\)', '', open(os.path.join(common.COQ, f)).read(), flags=re.S)
        for m in re.finditer(r'Require\s+(?:Import\s+|Export\s+)?(.*?)\.(?=\s|$)', txt, re.S):
            for tok in m.group(1).split():
                cand = tok.replace('Exactly.', '').replace('.', '/') + '.v'
                if os.path.exists(os.path.join(common.COQ, cand)):
                    todo.append(cand)
    return [f[:-2] for f in seen[1:] if f != 'Gen/Src_%s.v' % target]


def coqc(scratch, rel):
    p = subprocess.run(['timeout', '300', 'coqc', '-q', '-R', scratch, 'Exactly', '-w', '-notation-overridden,-deprecated',
                        os.path.join(scratch, rel)], stdout=subprocess.PIPE, stderr=subprocess.STDOUT, text=True)
    return p.returncode, p.stdout


def run_case(target, name, expect, rel, edits, root):
    src = os.path.join(root, name, 'src')
    scratch = os.path.join(root, name, 'coq')
    shutil.rmtree(os.path.join(root, name), ignore_errors=True)
    shutil.copytree(os.path.join(common.REPO, 'src', 'exactly_lib'), os.path.join(src, 'exactly_lib'),
                    ignore=shutil.ignore_patterns('__pycache__'))
    if rel.endswith('.diff'):  # a stored patch (seeded change), applied to the scratch copy
        subprocess.run(['patch', '-s', '-p2', '-d', src, '-i', os.path.join(common.VERIF, rel)], check=True)
    else:
        path = os.path.join(src, rel)
        txt = open(path).read()
        for old, new in edits:
            assert old in txt, (name, old)
            txt = txt.replace(old, new)
        open(path, 'w').write(txt)
    for d in ('Lib', 'Model', 'Spec', 'Proofs', 'Gen'):
        os.makedirs(os.path.join(scratch, d))
    for dep in deps(target):
        shutil.copy(os.path.join(common.COQ, dep + '.vo'), os.path.join(scratch, dep + '.vo'))
    try:
        py2coq.gen(target, src=src, out_dir=os.path.join(scratch, 'Gen'))
    except py2coq.Unsupported as ex:
        return 'refused', str(ex)
    a, b = [open(os.path.join(d, 'Gen', 'Src_%s.v' % target)).read() for d in (scratch, common.COQ)]
    strip = lambda t: re.sub(r'lines \d+-\d+ sha256:[0-9a-f]+|\.py:\d+:', '', t)
    same = 'byte-identical' if a == b else 'identical up to line numbers and source hashes in comments' if strip(a) == strip(b) else 'different text'
    rc, out = coqc(scratch, 'Gen/Src_%s.v' % target)
    if rc != 0:
        return 'fail', 'translated file does not compile: ' + out[-300:]
    shutil.copy(os.path.join(common.COQ, 'Proofs', 'SrcTie%s.v' % target), os.path.join(scratch, 'Proofs'))
    rc, out = coqc(scratch, 'Proofs/SrcTie%s.v' % target)
    if rc == 0:
        return 'pass', 'proof checks (translation %s)' % same
    broken = common.parse_coq_errors(out, scratch)
    return 'fail', '; '.join('obligation %s (line %d): %s' % (b[2], b[1], b[3][:160]) for b in broken) or out[-300:]


def main(targets):
    root = os.path.join(common.WORK, 'py2coq_demo')
    bad = 0
    for (target, name, expect, rel, edits) in CASES:
        if targets and target not in targets:
            continue
        got, detail = run_case(target, name, expect, rel, edits, root)
        ok = got == expect
        bad += not ok
        print('%-9s %-34s expected=%-7s got=%-7s %s  %s' % (target, name, expect, got, 'OK ' if ok else 'UNEXPECTED', detail[:330]))
    shutil.rmtree(root, ignore_errors=True)
    return 1 if bad else 0


if __name__ == '__main__':
    sys.exit(main(sys.argv[1:]))
