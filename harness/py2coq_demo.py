"""Mutation demonstration for the source tie (harness/py2coq.py): for each entry a scratch copy of the source tree is
edited (never /repo), translated, and the UNCHANGED hand-written proof coq/Proofs/SrcTie<Target>.v is re-checked
against the translation in a scratch Coq directory (never /verif/coq).

  harmless edits (renamed locals, comments, an equivalent re-formulation) -> the proof must still check
  changed logic (swapped comparison, dropped branch, other constant)       -> the proof must FAIL (or the translator refuse)

usage: PYTHONPATH=harness:/repo/src /venv/bin/python harness/py2coq_demo.py [Target ...]
"""
import os
import shutil
import subprocess
import sys

import common
import py2coq

RM = 'exactly_lib/impls/types/string_transformer/impl/filter/line_nums/range_merge.py'

# (target, name, expected 'pass'|'fail', file, [(old, new), ...])
CASES = [
    ('LineNums', 'unchanged', 'pass', RM, []),
    ('LineNums', 'h1-rename-locals', 'pass', RM, [
        ('current', 'cur'), ('ret_val', 'result'), ('from_to', 'seg'), ('next_', 'nxt'),
        ('segments_to_process', 'todo'), ('first_segment', 'fst_seg'), ('non_merged_segments_output', 'rest_out'),
        ('def _merge_head_to(initial: int,', 'def _merge_head_to(start: int,'),
        ('        if seg[0] <= initial + 1:\n            initial = max(initial, seg[1])',
         '        if seg[0] <= start + 1:\n            start = max(start, seg[1])'),
        ('            non_merged__out__sorted.append(seg)\n\n    return initial',
         '            non_merged__out__sorted.append(seg)\n\n    return start')]),
    ('LineNums', 'h2-comments-docstrings', 'pass', RM, [
        ('def _can_be_one(first: FromTo, second: FromTo) -> bool:\n',
         'def _can_be_one(first: FromTo, second: FromTo) -> bool:\n    """adjacent or overlapping"""\n    # a comment\n'),
        ('    ret_val = []\n\n    current = segments[0]', '    ret_val = []  # the output\n    current = segments[0]')]),
    ('LineNums', 'h3-equivalent-comparison', 'pass', RM, [
        ('return first[1] + 1 >= second[0]', 'return second[0] <= first[1] + 1'),
        ('if from_to[1] >= initial - 1:', 'if initial - 1 <= from_to[1]:')]),
    ('LineNums', 'm1-can_be_one-strict', 'fail', RM, [('return first[1] + 1 >= second[0]', 'return first[1] + 1 > second[0]')]),
    ('LineNums', 'm2-head-not-adjacent', 'fail', RM, [('if from_to[0] <= initial + 1:', 'if from_to[0] <= initial:')]),
    ('LineNums', 'm3-drop-tail-is-1-branch', 'fail', RM, [
        ('        if tail_from == 1:\n            return MergedRanges.everything()\n', '')]),
    ('LineNums', 'm4-tail-append-instead-of-insert', 'fail', RM, [
        ('non_merged__out__sorted.insert(0, from_to)', 'non_merged__out__sorted.append(from_to)')]),
    ('LineNums', 'm5-tail-max-instead-of-min', 'fail', RM, [('min(partitioning.tail_from)', 'max(partitioning.tail_from)')]),
    ('LineNums', 'm6-not-sorted', 'fail', RM, [
        ('sorted(filter(_is_valid_segment, partitioning.segments))', 'list(filter(_is_valid_segment, partitioning.segments))')]),
    ('LineNums', 'm7-first-line-number-constant', 'fail', 'exactly_lib/type_val_prims/matcher/line_matcher.py',
     [('FIRST_LINE_NUMBER = 1', 'FIRST_LINE_NUMBER = 0')]),
    ('LineNums', 'm8-merge-keeps-smaller-upper', 'fail', RM, [('max(current[1], next_[1])', 'next_[1]')]),
    ('LineNums', 'r1-aliasing-refused', 'refused', RM, [
        ('    ret_val = []\n\n    current = segments[0]', '    ret_val = []\n    alias = ret_val\n    current = segments[0]'),
        ('    ret_val.append(current)\n    return ret_val', '    ret_val.append(current)\n    return alias')]),
    ('LineNums', 'r2-while-loop-refused', 'refused', RM, [
        ('    for from_to in segments:\n        if from_to[0] <= initial + 1:',
         '    while False:\n        pass\n    for from_to in segments:\n        if from_to[0] <= initial + 1:')]),
]

DEPS = {  # compiled files of /verif/coq the proof needs (copied, not rebuilt)
    'LineNums': ['Lib/PyVal', 'Model/LineNums', 'Proofs/PyValLemmas'],
    'Interval': ['Lib/PyVal', 'Model/Interval', 'Proofs/PyValLemmas'],
    'Outcome': ['Lib/PyVal', 'Model/Outcome', 'Proofs/PyValLemmas'],
}


def coqc(scratch, rel):
    p = subprocess.run(['timeout', '300', 'coqc', '-q', '-R', scratch, 'Exactly', '-w', '-notation-overridden,-deprecated',
                        os.path.join(scratch, rel)], stdout=subprocess.PIPE, stderr=subprocess.STDOUT, text=True)
    return p.returncode, p.stdout


def run_case(target, name, expect, rel, edits, root):
    src = os.path.join(root, name, 'src')
    scratch = os.path.join(root, name, 'coq')
    shutil.rmtree(os.path.join(root, name), ignore_errors=True)
    shutil.copytree(os.path.join(common.REPO, 'src', 'exactly_lib'), os.path.join(src, 'exactly_lib'),
                    ignore=shutil.ignore_patterns('__pycache__'))
    path = os.path.join(src, rel)
    txt = open(path).read()
    for old, new in edits:
        assert old in txt, (name, old)
        txt = txt.replace(old, new)
    open(path, 'w').write(txt)
    for d in ('Lib', 'Model', 'Proofs', 'Gen'):
        os.makedirs(os.path.join(scratch, d))
    for dep in DEPS[target]:
        shutil.copy(os.path.join(common.COQ, dep + '.vo'), os.path.join(scratch, dep + '.vo'))
    try:
        py2coq.gen(target, src=src, out_dir=os.path.join(scratch, 'Gen'))
    except py2coq.Unsupported as ex:
        return 'refused', str(ex)
    same = open(os.path.join(scratch, 'Gen', 'Src_%s.v' % target)).read() == open(os.path.join(common.COQ, 'Gen', 'Src_%s.v' % target)).read()
    rc, out = coqc(scratch, 'Gen/Src_%s.v' % target)
    if rc != 0:
        return 'fail', 'translated file does not compile: ' + out[-300:]
    shutil.copy(os.path.join(common.COQ, 'Proofs', 'SrcTie%s.v' % target), os.path.join(scratch, 'Proofs'))
    rc, out = coqc(scratch, 'Proofs/SrcTie%s.v' % target)
    if rc == 0:
        return 'pass', 'proof checks' + (' (translation identical up to the source hashes in comments)' if not same else ' (translation byte-identical)')
    broken = common.parse_coq_errors(out, scratch)
    return 'fail', '; '.join('obligation %s (line %d): %s' % (b[2], b[1], b[3][:160]) for b in broken) or out[-300:]


def main(targets):
    root = os.path.join(common.WORK, 'py2coq_demo')
    bad = 0
    for (target, name, expect, rel, edits) in CASES:
        if targets and target not in targets:
            continue
        got, detail = run_case(target, name, expect, rel, edits, root)
        ok = got == expect
        bad += not ok
        print('%-9s %-34s expected=%-7s got=%-7s %s  %s' % (target, name, expect, got, 'OK ' if ok else 'UNEXPECTED', detail[:330]))
    shutil.rmtree(root, ignore_errors=True)
    return 1 if bad else 0


if __name__ == '__main__':
    sys.exit(main(sys.argv[1:]))
