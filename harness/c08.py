"""C08 — symbols: defined before use, defined once, type-checked, substituted faithfully.

Implementation side: generated test-case files of `def` / reference instructions over all value types, in any
phases in any file order, run IN PROCESS through the real main program (`impl.main_program`, `--keep`), the real
parser for the reference restrictions every context attaches (`symbol_usages()` of the parsed instructions and of the
parsed act phase).  Observed: verdict (VALIDATION_ERROR vs executed), whether a sandbox was created, the contents of
`file fN.txt = ...` and the argv of a probe program run by the act phase.
Model side: Model/Symbols.v (`sym_execute`) and the property predicate `P_C08` of Spec/C08.v, by vm_compute.
"""
import json
import os
import pathlib
import shutil
import tempfile

import common
from common import Failure, cN, cnat, cbool, clist, copt, ctext
import impl  # noqa: F401  (sets sys.path)

EXPLANATION = ('Theorems (Props/C08.v) over the Gallina model of symbol validation / restrictions / resolution / the '
               'execution-time table (Model/Symbols.v) against a one-pass declarative specification (Spec/C08.v); the model '
               'is tied to the running code by differential correspondence on generated def/reference programs.')
ASSUMPTIONS = ['instructions other than `def` are represented by their references (as reported by the real parser) and, for '
               '`file f = STRING` and the act-phase probe, by the values they resolve; what else they do is outside C08',
               'no `cd` instruction is generated: the current directory is the act directory',
               'pathlib.PurePosixPath is modelled (pparse/pjoin/pstr), tested differentially through rendered paths']
TRUSTED_EXTRA = ['harness/c08.py: mapping from the generated source text to the model term of the same instruction '
                 '(fragments, list elements, the four forms of path values); restrictions are read from the live objects']

KF_ID = 'KF-C08-1'

PHASES = ['setup', 'act', 'before-assert', 'assert', 'cleanup']
PH_COQ = {'setup': 'Setup', 'act': 'Act', 'before-assert': 'BeforeAssert', 'assert': 'Assert', 'cleanup': 'Cleanup'}
VT_COQ = {'STRING': 'TString', 'PATH': 'TPath', 'LIST': 'TList', 'LINE_MATCHER': 'TLineMatcher',
          'FILE_MATCHER': 'TFileMatcher', 'FILES_MATCHER': 'TFilesMatcher', 'STRING_MATCHER': 'TStringMatcher',
          'INTEGER_MATCHER': 'TIntegerMatcher', 'STRING_TRANSFORMER': 'TStringTransformer', 'PROGRAM': 'TProgram',
          'FILES_CONDITION': 'TFilesCondition', 'STRING_SOURCE': 'TStringSource', 'FILES_SOURCE': 'TFilesSource'}
W_COQ = {'STRING': 'WString', 'PATH': 'WPath', 'LIST': 'WList'}
REL_COQ = {'REL_CWD': 'RCwd', 'REL_HDS_CASE': 'RHdsCase', 'REL_HDS_ACT': 'RHdsAct', 'REL_ACT': 'RAct', 'REL_TMP': 'RTmp',
           'REL_RESULT': 'RResult'}
REL_ORDER = ['REL_CWD', 'REL_HDS_CASE', 'REL_HDS_ACT', 'REL_ACT', 'REL_TMP', 'REL_RESULT']
REL_OPT = {'REL_CWD': '-rel-cd', 'REL_HDS_CASE': '-rel-home', 'REL_HDS_ACT': '-rel-act-home', 'REL_ACT': '-rel-act',
           'REL_TMP': '-rel-tmp', 'REL_RESULT': '-rel-result'}
VERDICTS = {'VALIDATION_ERROR': 'VdValidation', 'PASS': 'VdPass', 'FAIL': 'VdFail', 'HARD_ERROR': 'VdHard',
            'INTERNAL_ERROR': 'VdInternal'}

# constant values of the types whose values the property does not talk about
LOGIC_CONST = {
    'line-matcher': 'constant true', 'file-matcher': 'constant true', 'files-matcher': 'constant true',
    'text-matcher': 'constant true', 'integer-matcher': 'constant true', 'text-transformer': 'identity',
    'program': '% true', 'files-condition': '{ }', 'files-source': '{ }', 'text-source': '"abc"',
}
# templates with holes: {L:<type id>} = a plain symbol name where a value of that type is expected,
# {D} = @[NAME]@ where any string/list/path is accepted
LOGIC_TEMPLATES = {
    'line-matcher': ['{L:line-matcher}', '! {L:line-matcher}', '{L:line-matcher} && {L:line-matcher}',
                     'contents {L:text-matcher}', 'line-num {L:integer-matcher}'],
    'text-matcher': ['{L:text-matcher}', 'num-lines {L:integer-matcher}', 'every line : {L:line-matcher}',
                     '-transformed-by {L:text-transformer} {L:text-matcher}', 'equals {S}'],
    'integer-matcher': ['{L:integer-matcher}', '! {L:integer-matcher}', '{L:integer-matcher} || {L:integer-matcher}'],
    'file-matcher': ['{L:file-matcher}', 'name {D}', 'contents {L:text-matcher}', 'dir-contents {L:files-matcher}'],
    'files-matcher': ['{L:files-matcher}', 'matches {L:files-condition}', '-selection {L:file-matcher} {L:files-matcher}'],
    'files-condition': ['{L:files-condition}', '{ x : {L:file-matcher} }'],
    'files-source': ['{L:files-source}', '{ dir x = {L:files-source} }', '{ file x = {S} }'],
    'text-transformer': ['{L:text-transformer}', '{L:text-transformer} | {L:text-transformer}', 'filter {L:line-matcher}',
                         'replace {D} {D}'],
    'text-source': ['{S}', '"a{D}"'],
    'program': ['@ {L:program}', "$ true '{D}'", '@ {L:program} {D}'],
}
# use (non-def) instructions per required logic type: (phases where available, template)
LOGIC_USES = {
    'line-matcher': (None, 'file {F} = "a" -transformed-by filter {L:line-matcher}'),
    'text-transformer': (None, 'file {F} = "a" -transformed-by {L:text-transformer}'),
    'text-matcher': (None, 'file {F} = "a" -transformed-by filter contents {L:text-matcher}'),
    'integer-matcher': (None, 'file {F} = "a" -transformed-by filter line-num {L:integer-matcher}'),
    'program': (None, 'file {F} = -stdout-from @ {L:program}'),
    'text-source': (None, 'file {F} = {S}'),
    'files-source': (None, 'dir {G} = {L:files-source}'),
    'file-matcher': (['assert'], 'exists -rel-home probe.sh : constant true || {L:file-matcher}'),
    'files-matcher': (['assert'], 'dir-contents -rel-home . : constant true || {L:files-matcher}'),
    'files-condition': (['assert'], 'dir-contents -rel-home . : constant true || matches {L:files-condition}'),
}
TYPE_IDS = ['string', 'list', 'path'] + sorted(LOGIC_CONST)
NAME_POOL = ['A', 'B', 'C', 'D', 'E', 'F', 'G2', 'h_1']
CONSTS = ['a', 'b', 'a b', ':', 'b-a', '', 'ab ', ' ']
NOISE = ['@[', ']@', '@[bad-name]@', '@[ ', 'x@[', '@[]@', ']@@[', '@ [', '@[a b]@', 'arr@[ ', '@[A', '@[@']
PATH_CONSTS = ['x', 'x/y', 'd', 'y/z', 'x/../y', './x', 'x//y/']


# ---------------------------------------------------------------------------------------------
# live tables
# ---------------------------------------------------------------------------------------------
class Live:
    def __init__(self, home):
        from exactly_lib.impls.instructions.multi_phase.define_symbol import type_setup
        from exactly_lib.cli_default.program_modes.test_case import builtin_symbols, default_instructions_setup, \
            test_case_handling_setup
        from exactly_lib.common import instruction_name_and_argument_splitter
        from exactly_lib.processing.instruction_setup import TestCaseParsingSetup
        from exactly_lib.processing.parse.act_phase_source_parser import ActPhaseParser
        from exactly_lib.processing.parse import test_case_parser
        from exactly_lib.util.symbol_table import SymbolTable
        self.home = home
        self.type_of_id = {tid: ts.value_type.name for tid, ts in type_setup.TYPE_SETUPS.items()}
        missing = [t for t in TYPE_IDS if t not in self.type_of_id] + [t for t in self.type_of_id if t not in TYPE_IDS]
        if missing:
            raise RuntimeError('type table of `def` differs from the types the generator knows: %r' % missing)
        for v in self.type_of_id.values():
            VT_COQ[v]  # fail closed on an unknown ValueType
        self.parser = test_case_parser.new_parser(
            TestCaseParsingSetup(instruction_name_and_argument_splitter.splitter,
                                 default_instructions_setup.INSTRUCTIONS_SETUP, ActPhaseParser()))
        self.actor = test_case_handling_setup.setup().act_phase_setup.actor_nav.value
        # builtins: name, type, constant value
        self.builtins = []
        empty = SymbolTable()
        for b in builtin_symbols.ALL:
            c = b.container
            vt = c.value_type.name
            ddv = c.sdv.resolve(empty)
            if vt == 'STRING':
                term = '(SStr [FConst %s])' % ctext(ddv.value_when_no_dir_dependencies())
            elif vt == 'PATH':
                rel = ddv.relativity()
                if rel.is_absolute or ddv.path_suffix_str() != '':
                    raise RuntimeError('builtin path %s of unexpected form' % b.name)
                term = '(SPth (PConst (Some %s) (@nil N)))' % REL_COQ[rel.relativity_type.name]
            else:
                raise RuntimeError('builtin %s of unexpected type %s' % (b.name, vt))
            self.builtins.append((b.name, vt, term))
        self.builtin_names = [b[0] for b in self.builtins]

    def parse(self, path, text):
        """-> {phase: [(first_line_number, [usage])]} in the order the parser stores them; act: one entry"""
        from exactly_lib.processing.test_case_processing import TestCaseFileReference
        from exactly_lib.section_document.parse_source import ParseSource
        from exactly_lib.section_document.model import ElementType
        doc = self.parser.apply(TestCaseFileReference(pathlib.Path(path), pathlib.Path(self.home)), ParseSource(text))
        out = {}
        for ph, contents in (('setup', doc.setup_phase), ('before-assert', doc.before_assert_phase),
                             ('assert', doc.assert_phase), ('cleanup', doc.cleanup_phase)):
            out[ph] = [(e.source.first_line_number, list(e.instruction_info.instruction.symbol_usages()))
                       for e in contents.elements if e.element_type is ElementType.INSTRUCTION]
        act_instrs = [e.instruction_info.instruction for e in doc.act_phase.elements
                      if e.element_type is ElementType.INSTRUCTION]
        # the actor is the one the [conf] phase configures (its instructions are run against a ConfigurationBuilder,
        # as full_execution does), else the default one
        from exactly_lib.test_case.phases.configuration import ConfigurationBuilder
        from exactly_lib.util.name_and_value import NameAndValue
        cb = ConfigurationBuilder(pathlib.Path(self.home), pathlib.Path(self.home), NameAndValue('default', self.actor))
        for e in doc.configuration_phase.elements:
            if e.element_type is ElementType.INSTRUCTION:
                e.instruction_info.instruction.main(cb)
        atc = cb.actor.value.parse(act_instrs)
        out['act'] = [(None, list(atc.symbol_usages()))]
        return out


def restr_term(r):
    from exactly_lib.type_val_deps.sym_ref.restrictions import ValueTypeRestriction
    from exactly_lib.type_val_deps.sym_ref.w_str_rend_restrictions.reference_restrictions import \
        ReferenceRestrictionsOnDirectAndIndirect, OrReferenceRestrictions
    if isinstance(r, ValueTypeRestriction):
        return '(RVT %s)' % clist([VT_COQ[t.name] for t in r.value_types])
    if isinstance(r, ReferenceRestrictionsOnDirectAndIndirect):
        return '(RDI %s %s)' % (vrestr_term(r.direct), copt(r.indirect, vrestr_term))
    if isinstance(r, OrReferenceRestrictions):
        return '(ROr %s)' % clist(['(%s, (%s, %s))' % (W_COQ[p.selector.name], vrestr_term(p.restriction.direct),
                                                      copt(p.restriction.indirect, vrestr_term)) for p in r.parts])
    raise RuntimeError('unknown kind of reference restriction: %r' % (r,))


def vrestr_term(v):
    from exactly_lib.type_val_deps.sym_ref.w_str_rend_restrictions.value_restrictions import \
        ArbitraryValueWStrRenderingRestriction, PathAndRelativityRestriction
    if isinstance(v, ArbitraryValueWStrRenderingRestriction):
        return '(VArb %s)' % clist([W_COQ[t.name] for t in v.accepted])
    if isinstance(v, PathAndRelativityRestriction):
        acc = v.accepted
        rels = sorted((t.name for t in acc.rel_option_types), key=REL_ORDER.index)
        return '(VPathRel %s %s)' % (clist([REL_COQ[t] for t in rels]) if rels else '(@nil rel)', cbool(acc.absolute))
    raise RuntimeError('unknown kind of value restriction: %r' % (v,))


# ---------------------------------------------------------------------------------------------
# generated programs
#   fragments: [('c', text) | ('s', name)]
#   instruction: dict(kind='def'|'use'|'stop'|'prep', src=<source line>, ...)
# ---------------------------------------------------------------------------------------------
def frags_src(frags, quote=True):
    s = ''.join(f[1] if f[0] == 'c' else '@[%s]@' % f[1] for f in frags)
    return '"%s"' % s if quote else s


def path_ast_of_plain_argument(frags):
    """PATH argument WITHOUT relativity option -> model AST, as parse_path.py decides by position:
    constant -> constant path (absolute iff it starts with '/'); first fragment a reference that is the whole argument
    or is followed by text starting with '/' -> that reference is a path or a string, the rest its suffix; anything
    else -> default relativity, every reference a path component"""
    if len(frags) == 1 and frags[0][0] == 'c':
        return ('pconst', None if frags[0][1].startswith('/') else 'REL_CWD', frags[0][1])
    if frags[0][0] == 's' and (len(frags) == 1 or (frags[1][0] == 'c' and frags[1][1].startswith('/'))):
        return ('pref', frags[0][1], frags[1:], 'REL_CWD')
    return ('prelopt', 'REL_CWD', frags)


def merge_consts(frags):
    out = []
    for f in frags:
        if f[0] == 'c' and out and out[-1][0] == 'c':
            out[-1] = ('c', out[-1][1] + f[1])
        elif not (f[0] == 'c' and f[1] == ''):
            out.append(f)
    return out


def frags_names(frags):
    return [f[1] for f in frags if f[0] == 's']


class Gen:
    """generates one program: a list of instructions in execution order, then phases and file layout"""

    def __init__(self, rng, live):
        self.rng, self.live = rng, live
        self.defined = []  # (name, type id) of the definitions so far in execution order
        self.fileno = 0
        self.norun = set()
        self.clean = rng.chance(0.5)  # no deliberate violation: every hole gets a well-typed earlier symbol

    def fresh_file(self):
        self.fileno += 1
        return 'f%d.txt' % self.fileno

    # -- choice of a symbol for a hole that wants one of the type ids in `want`
    def pick(self, want, mode=None):
        n = self.pick0(want, mode)
        if 'program' in want and n in self.norun:
            # a program whose arguments demand existing files must never be run: only a name that is not one of those
            rest = [m for m in NAME_POOL if m not in self.norun]
            return None if self.clean or not rest else self.rng.choice(rest)
        return n

    def pick0(self, want, mode=None):
        rng = self.rng
        r = rng.below(100) if mode is None else mode
        good = [n for n, t in self.defined if t in want]
        if self.clean:
            bs = [b[0] for b in self.live.builtins if {'STRING': 'string', 'PATH': 'path'}[b[1]] in want]
            cand = good * 3 + bs
            return rng.choice(cand) if cand else None
        if r < 70 and good:
            return rng.choice(good)
        if r < 80:
            bs = [b[0] for b in self.live.builtins if {'STRING': 'string', 'PATH': 'path'}[b[1]] in want]
            if bs:
                return rng.choice(bs)
        if r < 90 and self.defined:
            return rng.choice(self.defined)[0]  # probably of a wrong type
        return rng.choice(NAME_POOL)  # defined later, never, or by chance earlier

    def gen_frags(self, want=('string', 'list', 'path'), n_max=3, first_sym=None):
        rng = self.rng
        out = []
        for k in range(rng.randint(1, n_max)):
            if rng.chance(0.5):
                if out and out[-1][0] == 'c':
                    continue
                out.append(('c', rng.choice(NOISE) if rng.chance(0.3) else rng.choice(CONSTS)))
            else:
                out.append(('s', self.pick(want)))
        out = [f for f in out if f[1] is not None]
        out = [f for i, f in enumerate(out) if not (i and f[0] == 'c' and out[i - 1][0] == 'c')]
        if not out:
            out = [('c', 'a')]
        return out

    def gen_path(self):
        """-> (source text, model AST)"""
        rng = self.rng
        form = rng.weighted([('relopt', 26), ('relsym', 16), ('ref', 22), ('free', 18), ('const', 6), ('deflt', 6), ('abs', 6)])
        if self.clean:
            if form == 'relsym' and self.pick(('path',)) is None:
                form = 'relopt'
            if form == 'ref' and self.pick(('path', 'string')) is None:
                form = 'relopt'
            if form == 'deflt' and self.pick(('string',)) is None:
                form = 'const'
        if form == 'const':
            s = rng.choice(PATH_CONSTS)
            return s, ('pconst', 'REL_CWD', s)
        if form == 'abs':
            s = '/' + rng.choice(PATH_CONSTS)
            return s, ('pconst', None, s)
        if form == 'free':
            # any sequence of text and references: the position decides what each reference must be
            shape = rng.choice(['sT', 'ss', 'sTs', 'Ts', 'TsT', 'sSs', 'Tss', 's', 'sS', 'ssS'])
            fr = []
            for i, ch in enumerate(shape):
                if ch == 'T':
                    fr.append(('c', rng.choice(['post', 'x', '.d', 'p-q', 'y/z'])))
                elif ch == 'S':
                    fr.append(('c', '/' + rng.choice(PATH_CONSTS)))
                else:
                    is_path_pos = i == 0 and (len(shape) == 1 or shape[1] == 'S')
                    want = ('path', 'string') if is_path_pos else ('string',)
                    if not self.clean and rng.chance(0.5):
                        want = ('path', 'string')
                    fr.append(('s', self.pick(want)))
            if any(f[1] is None for f in fr):
                fr = [('c', 'x')]
            return frags_src(fr, quote=rng.chance(0.4)), path_ast_of_plain_argument(fr)
        sfx = self.gen_path_suffix()
        if form == 'relopt':
            rel = rng.choice(REL_ORDER)
            return '%s %s' % (REL_OPT[rel], frags_src(sfx)), ('prelopt', rel, sfx)
        if form == 'relsym':
            base = self.pick(('path',))
            return '-rel %s %s' % (base, frags_src(sfx)), ('prelsym', base, sfx)
        if form == 'ref':
            r = self.pick(('path', 'string'))
            tail = []
            if rng.chance(0.6):
                tail = [('c', '/' + rng.choice(PATH_CONSTS))]
                if rng.chance(0.3) and self.pick(('string',)) is not None:
                    tail.append(('s', self.pick(('string',))))
            return frags_src([('s', r)] + tail, quote=rng.chance(0.3)), ('pref', r, tail, 'REL_CWD')
        # a symbol that is not first: default relativity, all references must be strings
        sfx = [('c', rng.choice(['x', 'x/', 'y']))] + [('s', self.pick(('string',)))]
        return frags_src(sfx, quote=False), ('prelopt', 'REL_CWD', sfx)

    def gen_path_suffix(self):
        rng = self.rng
        out = []
        for k in range(rng.randint(1, 3)):
            if rng.chance(0.55):
                if out and out[-1][0] == 'c':
                    continue
                out.append(('c', rng.choice(PATH_CONSTS + ['/'])))
            else:
                out.append(('s', self.pick(('string',))))
        out = [f for f in out if f[1] is not None]
        out = [f for i, f in enumerate(out) if not (i and f[0] == 'c' and out[i - 1][0] == 'c')]
        if not out or (len(out) == 1 and out[0][0] == 'c' and out[0][1].startswith('/')):
            out = [('c', 'x')]
        if out[0][0] == 'c' and out[0][1].startswith('/') and all(f[0] == 'c' for f in out):
            out = [('c', 'x')] + out
        return out

    def fill(self, template):
        """fills the holes of a template -> (text, [names used])"""
        out, names, i = '', [], 0
        while i < len(template):
            if template[i] == '{' and template[i + 1] in 'LDSFG':
                j = template.index('}', i)
                hole = template[i + 1:j]
                if hole.startswith('L:'):
                    n = self.pick((hole[2:],))
                    out += str(n)
                    names.append(n)
                elif hole == 'D':
                    n = self.pick(('string', 'list', 'path'))
                    out += '@[%s]@' % n
                    names.append(n)
                elif hole == 'S':
                    n = self.pick(('string', 'text-source'))
                    out += '@[%s]@' % n
                    names.append(n)
                elif hole == 'F':
                    out += self.fresh_file()
                elif hole == 'G':
                    self.fileno += 1
                    out += 'g%d' % self.fileno
                i = j + 1
            else:
                out += template[i]
                i += 1
        if any(n is None for n in names):
            return None, None
        return out, names

    def gen_def(self):
        rng = self.rng
        r = rng.below(100)
        used = [n for n, _ in self.defined]
        fresh = [n for n in NAME_POOL if n not in used]
        if (r < 82 or self.clean) and fresh:
            name = rng.choice(fresh)
        elif self.clean:
            return self.gen_use()
        elif r < 92 and used:
            name = rng.choice(used)  # duplicate
        elif r < 96:
            name = rng.choice(self.live.builtin_names)  # duplicate of a builtin
        else:
            name = rng.choice(NAME_POOL)
        tid = rng.weighted([('string', 26), ('list', 16), ('path', 22)] + [(t, 8 if t == 'program' else 4) for t in LOGIC_CONST])
        if tid == 'string':
            fr = self.gen_frags()
            ins = dict(kind='def', name=name, tid=tid, src='def string %s = %s' % (name, frags_src(fr)), val=('str', fr))
        elif tid == 'list':
            els = []
            for k in range(rng.randint(0, 3)):
                if rng.chance(0.45):
                    els.append(('r', self.pick(('string', 'list', 'path'))))
                else:
                    els.append(('e', self.gen_frags(n_max=2)))
            els = [e for e in els if e[1] is not None]
            src = ' '.join('@[%s]@' % e[1] if e[0] == 'r' else frags_src(e[1]) for e in els)
            ins = dict(kind='def', name=name, tid=tid, src='def list %s = %s' % (name, src), val=('lst', els))
        elif tid == 'path':
            src, ast = self.gen_path()
            ins = dict(kind='def', name=name, tid=tid, src='def path %s = %s' % (name, src), val=ast)
        elif tid == 'program' and rng.chance(0.6):
            ins = self.gen_program_with_arguments(name)
        else:
            if rng.chance(0.45):
                txt, names = LOGIC_CONST[tid], []
            else:
                txt, names = self.fill(rng.choice(LOGIC_TEMPLATES[tid]))
                if txt is None:
                    txt, names = LOGIC_CONST[tid], []
            ins = dict(kind='def', name=name, tid=tid, src='def %s %s = %s' % (tid, name, txt), val=('other', names))
        self.defined.append((name, tid))
        return ins

    def gen_use(self, phase_hint=None):
        rng = self.rng
        r = rng.below(100)
        if r < 10:
            # a here-document: references (and stray reference syntax) across lines
            fr = []
            for k in range(rng.randint(1, 3)):
                fr += self.gen_frags(n_max=3) + [('c', '\n')]
            fr = merge_consts(fr)
            body = frags_src(fr, quote=False)
            if any(l.strip() == 'EOF' for l in body.split('\n')):
                fr = [('c', 'a\n')]
                body = 'a\n'
            return dict(kind='use', src='file {FILE} = <<EOF\n%sEOF' % body, vals=[('str', fr)], file=True)
        if r < 18:
            # a command line: the rest of the line is ONE string
            fr = self.gen_frags(n_max=4)
            return dict(kind='use', src="$ true '%s'" % frags_src(fr, quote=False), vals=[], names=frags_names(fr), cmdline=fr)
        if rng.chance(0.6):
            fr = self.gen_frags(n_max=4)
            return dict(kind='use', src='file %s = %s' % ('{FILE}', frags_src(fr)), vals=[('str', fr)], file=True)
        tid = rng.choice(sorted(LOGIC_USES))
        phases, tmpl = LOGIC_USES[tid]
        txt, names = self.fill(tmpl)
        if txt is None:
            fr = self.gen_frags(n_max=4)
            return dict(kind='use', src='file %s = %s' % ('{FILE}', frags_src(fr)), vals=[('str', fr)], file=True)
        return dict(kind='use', src=txt, vals=[], names=names, only=phases)

    def gen_arg_elements(self, n_lo=0, n_hi=4):
        rng = self.rng
        els = []
        for k in range(rng.randint(n_lo, n_hi)):
            if rng.chance(0.5):
                els.append(('r', self.pick(('string', 'list', 'path'))))
            else:
                els.append(('e', self.gen_frags(n_max=2)))
        return [e for e in els if e[1] is not None]

    def gen_program_with_arguments(self, name):
        """def program NAME = % echo ARGUMENT...  where the SAME symbol may stand at several positions that demand
        different things of it: a naked / quoted argument (any string-rendered type), the path of `-existing-path -rel-X`
        (a path component: string), the SYMBOL of `-existing-path -rel SYMBOL` (a path).
        The definition is never run: only its references matter."""
        rng = self.rng
        items, src_refs, names = [], [], []
        again = None
        for k in range(rng.randint(2, 4)):
            form = rng.weighted([('r', 30), ('e', 25), ('xp', 30), ('rs', 15)])
            reuse = again is not None and rng.chance(0.6)
            if form == 'r':
                n = again if reuse else self.pick(('string', 'list', 'path') if not self.clean or k else ('string',))
                if n is None:
                    continue
                items.append('@[%s]@' % n)
                src_refs.append((n, 'any_data'))
                again = again or n
            elif form == 'e':
                fr = self.gen_frags(n_max=2)
                items.append(frags_src(fr))
                src_refs += [(n, 'any_data') for n in frags_names(fr)]
            elif form == 'xp':
                n = again if reuse else self.pick(('string',))
                if n is None:
                    continue
                fr = [('s', n)] if rng.chance(0.6) else [('c', 'x/'), ('s', n)]
                items.append('%s %s %s' % (rng.choice(['-existing-path', '-existing-file', '-existing-dir']),
                                           rng.choice(['-rel-act', '-rel-tmp', '-rel-home']), frags_src(fr, quote=False)))
                src_refs.append((n, 'str_only_restr'))
            else:
                n = again if reuse else self.pick(('path',))
                if n is None:
                    continue
                items.append('-existing-path -rel %s x' % n)
                src_refs.append((n, 'def_path_base'))
        if not items:
            items = ['a']
        names = [n for n, _ in src_refs]
        self.norun.add(name)
        return dict(kind='def', name=name, tid='program', src='def program %s = %% echo %s' % (name, ' '.join(items)),
                    val=('other', names), src_refs=src_refs)

    def gen_actor(self):
        """-> ([conf] line, act instruction): an actor whose interpreter has arguments with references; the references of
        the [conf] line are references of the act phase"""
        rng = self.rng
        home = self.live.home
        kind = rng.choice(['file', 'file', 'source'])
        els = self.gen_arg_elements(1, 3)
        if not els:
            els = [('e', [('c', 'i')])]
        args_src = ' '.join('@[%s]@' % e[1] if e[0] == 'r' else frags_src(e[1]) for e in els)
        pg = None  # (`@ SYMBOL` is not reference syntax in an actor configuration: `@` would be a file name)
        if pg is not None:
            conf = 'actor = %s @ %s %s' % (kind, pg, args_src)
        else:
            conf = 'actor = %s %% /bin/sh %s/interp.sh %s' % (kind, home, args_src)
        names = val_names(('lst', els))
        if kind == 'file':
            act_els = self.gen_arg_elements(0, 2)
            act_src = ('probe.sh ' + ' '.join('@[%s]@' % e[1] if e[0] == 'r' else frags_src(e[1]) for e in act_els)).rstrip()
            if pg is None:
                allels = els + [('e', [('c', '/HOME/probe.sh')])] + act_els
                return conf, dict(kind='use', src=act_src, vals=[('lst', allels)], act=True)
            names = names + val_names(('lst', act_els))
        else:
            act_src = 'true'
        src_refs = ([(pg, '(RVT [TProgram])')] if pg is not None else []) + [(n, 'any_data') for n in names]
        return conf, dict(kind='use', src=act_src, vals=[], names=[n for n, _ in src_refs], src_refs=src_refs)

    def gen_act(self):
        rng = self.rng
        els = []
        for k in range(rng.randint(0, 4)):
            if rng.chance(0.5):
                els.append(('r', self.pick(('string', 'list', 'path'))))
            else:
                els.append(('e', self.gen_frags(n_max=2)))
        els = [e for e in els if e[1] is not None]
        src = 'probe.sh ' + ' '.join('@[%s]@' % e[1] if e[0] == 'r' else frags_src(e[1]) for e in els)
        return dict(kind='use', src=src.rstrip(), vals=[('lst', els)], act=True)


def val_names(val):
    """names referenced by a value AST, in the order of [sdv.references]"""
    k = val[0]
    if k == 'str':
        return frags_names(val[1])
    if k == 'lst':
        out = []
        for e in val[1]:
            out += [e[1]] if e[0] == 'r' else frags_names(e[1])
        return out
    if k == 'pconst':
        return []
    if k == 'prelopt':
        return frags_names(val[2])
    if k == 'prelsym':
        return [val[1]] + frags_names(val[2])
    if k == 'pref':
        return [val[1]] + frags_names(val[2])
    if k == 'other':
        return list(val[1])
    raise ValueError(val)


def gen_program(rng, live, quick):
    """-> dict(phases={phase: [instr]}, sections=[(phase, [instr])])"""
    g = Gen(rng, live)
    n = rng.randint(2, 7) if not rng.chance(0.1) else rng.randint(7, 10)
    # monotone assignment of phases to positions
    cuts = sorted(rng.below(n + 1) for _ in range(4))
    has_act = rng.chance(0.6)
    with_actor = has_act and rng.chance(0.3)
    conf = None
    phases = {p: [] for p in PHASES}
    stop_budget = 1 if rng.chance(0.3) else 0
    hardno = 0

    def mk_act():
        nonlocal conf
        if with_actor:
            conf, a = g.gen_actor()
            return [a]
        return [g.gen_act()]

    for pos in range(n):
        ph = ['setup', 'before-assert', 'assert', 'cleanup'][sum(1 for c in cuts[:3] if c <= pos)]
        if has_act and not phases['act'] and ph != 'setup':
            phases['act'] = mk_act()
        r = rng.below(100)
        if stop_budget and r < 12:
            stop_budget -= 1
            if ph == 'assert' and rng.chance(0.6):
                phases[ph].append(dict(kind='stop', hard=False, src='exit-code != 0'))
            else:
                hardno += 1
                phases[ph].append(dict(kind='prep', src='file h%d.txt = x' % hardno))
                phases[ph].append(dict(kind='stop', hard=True, src='file h%d.txt = x' % hardno))
        else:
            u = g.gen_def() if r < 58 else g.gen_use()  # (gen_def gives a use when no fresh name is left)
            if u.get('only') and ph not in u['only']:
                fr = g.gen_frags(n_max=3)
                u = dict(kind='use', src='file {FILE} = %s' % frags_src(fr), vals=[('str', fr)], file=True)
            phases[ph].append(u)
    if has_act and not phases['act']:
        phases['act'] = mk_act()
    prog = finish_program(rng, phases)
    if conf is not None:
        prog['conf'] = (conf, rng.below(len(prog['sections']) + 1))
    return prog


def finish_program(rng, phases):
    fileno = 0
    for ph in PHASES:
        for ins in phases[ph]:
            if ins.get('file'):
                fileno += 1
                ins['fname'] = 'v%d.txt' % fileno
                ins['src'] = ins['src'].replace('{FILE}', ins['fname'])
    # sections: each phase split into 1..2 sections, sections of different phases shuffled; the relative order of the
    # sections of ONE phase is kept (their contents are concatenated in file order)
    sections = []
    for ph in PHASES:
        lst = phases[ph]
        if not lst:
            if rng.chance(0.2):
                sections.append([ph, []])
            continue
        if ph != 'act' and len(lst) >= 2 and rng.chance(0.35):
            k = rng.randint(1, len(lst) - 1)
            sections.append([ph, lst[:k]])
            sections.append([ph, lst[k:]])
        else:
            sections.append([ph, lst])
    order = list(range(len(sections)))
    if rng.chance(0.7):
        rng.shuffle(order)
        # restore the relative order of sections of the same phase
        pos_of = {}
        for ph in PHASES:
            idxs = [i for i in order if sections[i][0] == ph]
            slots = sorted(order.index(i) for i in idxs)
            for s, i in zip(slots, sorted(idxs)):
                pos_of[s] = i
        order = [pos_of[s] for s in range(len(order))]
    sections = [sections[i] for i in order]
    return dict(phases=phases, sections=sections)


def assert_safe(prog):
    """every file a generated program creates lies under the sandbox: a symbol used as the FIRST component of the
    target of `file` / `dir` must not be able to be empty or absolute (a string whose value starts with a letter)"""
    import re
    defs = {}
    for ph in PHASES:
        for ins in prog['phases'][ph]:
            if ins['kind'] == 'def':
                defs.setdefault(ins['name'], ins)

    def first_char(name, depth=0):
        ins = defs.get(name)
        if ins is None or depth > 8:
            return None
        v = ins['val']
        if v[0] == 'str':
            for f in v[1]:
                if f[0] == 'c' and f[1]:
                    return f[1][0]
                if f[0] == 's':
                    return first_char(f[1], depth + 1)
            return None
        if v[0] in ('lst', 'other'):
            return 'x'  # rejected by the path-or-string restriction; never a file target
        return 'x'  # a path: its relativity is validated (never absolute for a file target)

    for ph in PHASES:
        for ins in prog['phases'][ph]:
            m = re.match(r'(file|dir|copy)\s+"?@\[(\w+)\]@', ins['src'])
            if m:
                c = first_char(m.group(2))
                if m.group(2) in defs and (c is None or not c.isalpha()):
                    raise RuntimeError('unsafe generated program (file target could leave the sandbox): ' + ins['src'])


def program_text(prog):
    """-> (text, {line number: (phase, index in phase)})"""
    lines, where = [], {}
    counters = {p: 0 for p in PHASES}
    conf = prog.get('conf')
    for k, (ph, lst) in enumerate(list(prog['sections']) + [(None, None)]):
        if conf is not None and k == min(conf[1], len(prog['sections'])):
            lines += ['[conf]', conf[0], '']
        if ph is None:
            break
        lines.append('[%s]' % ph)
        for ins in lst:
            where[len(lines) + 1] = (ph, counters[ph])
            ins['line'] = len(lines) + 1
            lines.extend(ins['src'].split('\n'))
            ins['idx'] = counters[ph]
            counters[ph] += 1
        lines.append('')
    return '\n'.join(lines) + '\n', where


# ---------------------------------------------------------------------------------------------
# systematic stream: every (defined type, requiring context) pair through 0..3 indirect steps
# ---------------------------------------------------------------------------------------------
def const_def(tid, name, k=0):
    if tid == 'string':
        fr = [('c', ['a', 'b a', 'c'][k % 3])]  # never empty: `file @[S]@/w.txt` with S = '' would be /w.txt
        return dict(kind='def', name=name, tid=tid, src='def string %s = %s' % (name, frags_src(fr)), val=('str', fr))
    if tid == 'list':
        els = [('e', [('c', 'a')]), ('e', [('c', 'b c')])][:1 + k % 2]
        return dict(kind='def', name=name, tid=tid, src='def list %s = %s' % (name, ' '.join(frags_src(e[1]) for e in els)),
                    val=('lst', els))
    if tid == 'path':
        rel = REL_ORDER[k % 6]
        return dict(kind='def', name=name, tid=tid, src='def path %s = %s x' % (name, REL_OPT[rel]),
                    val=('prelopt', rel, [('c', 'x')]))
    return dict(kind='def', name=name, tid=tid, src='def %s %s = %s' % (tid, name, LOGIC_CONST[tid]), val=('other', []))


def via_def(tid, name, target, k=0):
    """a definition of type tid that references `target` (data types only)"""
    if tid == 'string':
        fr = [('c', 'p'), ('s', target)] if k % 2 else [('s', target)]
        return dict(kind='def', name=name, tid=tid, src='def string %s = %s' % (name, frags_src(fr)), val=('str', fr))
    if tid == 'list':
        els = [('r', target)] if k % 2 else [('e', [('s', target), ('c', 'q')])]
        src = ' '.join('@[%s]@' % e[1] if e[0] == 'r' else frags_src(e[1]) for e in els)
        return dict(kind='def', name=name, tid=tid, src='def list %s = %s' % (name, src), val=('lst', els))
    form = k % 3
    if form == 0:
        return dict(kind='def', name=name, tid='path', src='def path %s = @[%s]@/s' % (name, target),
                    val=('pref', target, [('c', '/s')], 'REL_CWD'))
    if form == 1:
        return dict(kind='def', name=name, tid='path', src='def path %s = -rel %s s' % (name, target),
                    val=('prelsym', target, [('c', 's')]))
    return dict(kind='def', name=name, tid='path', src='def path %s = -rel-tmp @[%s]@' % (name, target),
                val=('prelopt', 'REL_TMP', [('s', target)]))


POSITION_CONTEXTS = {
    # name: (type of the definition Z, source of its value with {T} = the reference, value AST builder)
    'str-lone-quoted': ('string', '"{T}"', lambda t: ('str', [('s', t)])),
    'str-middle': ('string', '"a{T}b"', lambda t: ('str', [('c', 'a'), ('s', t), ('c', 'b')])),
    'str-naked-first': ('string', '{T}b', lambda t: ('str', [('s', t), ('c', 'b')])),
    'list-elem-quoted': ('list', '"{T}"', lambda t: ('lst', [('e', [('s', t)])])),
    'list-elem-mixed': ('list', 'a{T} e', lambda t: ('lst', [('e', [('c', 'a'), ('s', t)]), ('e', [('c', 'e')])])),
    'list-elem-last': ('list', 'e {T}', lambda t: ('lst', [('e', [('c', 'e')]), ('r', t)])),
    'path-lone-quoted': ('path', '"{T}"', lambda t: path_ast_of_plain_argument([('s', t)])),
    'path-first-then-text': ('path', '{T}post', lambda t: path_ast_of_plain_argument([('s', t), ('c', 'post')])),
    'path-first-then-dot': ('path', '{T}.d/e', lambda t: path_ast_of_plain_argument([('s', t), ('c', '.d/e')])),
    'path-first-then-ref': ('path', '{T}{T}', lambda t: path_ast_of_plain_argument([('s', t), ('s', t)])),
    'path-first-then-ref-slash': ('path', '{T}@[TAB]@/x', lambda t: path_ast_of_plain_argument([('s', t), ('s', 'TAB'), ('c', '/x')])),
    'path-first-slash-then-ref': ('path', '{T}/x{T}', lambda t: path_ast_of_plain_argument([('s', t), ('c', '/x'), ('s', t)])),
    'path-middle': ('path', 'x{T}y', lambda t: path_ast_of_plain_argument([('c', 'x'), ('s', t), ('c', 'y')])),
    'path-last': ('path', 'x/{T}', lambda t: path_ast_of_plain_argument([('c', 'x/'), ('s', t)])),
    'path-after-slash-first': ('path', '/x/{T}', lambda t: path_ast_of_plain_argument([('c', '/x/'), ('s', t)])),
    'rel-suffix-middle': ('path', '-rel-act x{T}y', lambda t: ('prelopt', 'REL_ACT', [('c', 'x'), ('s', t), ('c', 'y')])),
    'rel-suffix-quoted': ('path', '-rel-tmp "{T}"', lambda t: ('prelopt', 'REL_TMP', [('s', t)])),
    'rel-suffix-then-slash': ('path', '-rel-home {T}/x', lambda t: ('prelopt', 'REL_HDS_CASE', [('s', t), ('c', '/x')])),
    'relsym-suffix': ('path', '-rel EXACTLY_ACT {T}', lambda t: ('prelsym', 'EXACTLY_ACT', [('s', t)])),
    'relsym-suffix-then-slash': ('path', '-rel EXACTLY_TMP {T}/x', lambda t: ('prelsym', 'EXACTLY_TMP', [('s', t), ('c', '/x')])),
}
CONTEXTS = (['data', 'str', 'path-or-str', 'rel-base', 'file-name', 'list-elem', 'act-arg'] + sorted(POSITION_CONTEXTS) +
            ['L:' + t for t in sorted(LOGIC_CONST)])


def context_use(ctx, target, k):
    """an instruction whose reference to `target` stands in the given context -> (phase, instr)"""
    if ctx == 'data':
        fr = [('c', 'v='), ('s', target)]
        return 'setup', dict(kind='use', src='file {FILE} = %s' % frags_src(fr), vals=[('str', fr)], file=True)
    if ctx == 'str':
        return 'setup', dict(kind='def', name='Z', tid='path', src='def path Z = -rel-act @[%s]@' % target,
                             val=('prelopt', 'REL_ACT', [('s', target)]))
    if ctx == 'path-or-str':
        return 'setup', dict(kind='def', name='Z', tid='path', src='def path Z = @[%s]@/t' % target,
                             val=('pref', target, [('c', '/t')], 'REL_CWD'))
    if ctx == 'rel-base':
        return 'setup', dict(kind='def', name='Z', tid='path', src='def path Z = -rel %s t' % target,
                             val=('prelsym', target, [('c', 't')]))
    if ctx == 'file-name':
        return 'before-assert', dict(kind='use', src='file @[%s]@/w.txt = x' % target, vals=[], names=[target])
    if ctx == 'list-elem':
        return 'setup', dict(kind='def', name='Z', tid='list', src='def list Z = @[%s]@ e' % target,
                             val=('lst', [('r', target), ('e', [('c', 'e')])]))
    if ctx in POSITION_CONTEXTS:
        tid, src, mk = POSITION_CONTEXTS[ctx]
        return 'setup', dict(kind='def', name='Z', tid=tid, src='def %s Z = %s' % (tid, src.replace('{T}', '@[%s]@' % target)),
                             val=mk(target))
    if ctx == 'act-arg':
        els = [('r', target), ('e', [('s', target), ('c', '!')])]
        return 'act', dict(kind='use', src='probe.sh @[%s]@ "@[%s]@!"' % (target, target), vals=[('lst', els)], act=True)
    tid = ctx[2:]
    phases, tmpl = LOGIC_USES[tid]
    n = [0]
    txt = tmpl.replace('{L:%s}' % tid, target).replace('{S}', '@[%s]@' % target)
    txt = txt.replace('{F}', 'u1.txt').replace('{G}', 'u1')
    return (phases[0] if phases else 'cleanup'), dict(kind='use', src=txt, vals=[], names=[target])


def systematic_programs(rng, quick):
    progs = []
    k = 0
    for tid in TYPE_IDS:
        for ctx in CONTEXTS:
            for depth in (0, 1, 2, 3):
                k += 1
                phases = {p: [] for p in PHASES}
                chain = [const_def(tid, 'X0', k)]
                target = 'X0'
                for d in range(depth):
                    vt = ['string', 'list', 'path'][(k + d) % 3]
                    nm = 'X%d' % (d + 1)
                    chain.append(via_def(vt, nm, target, k + d))
                    target = nm
                ph, use = context_use(ctx, target, k)
                # the chain goes into ONE phase not later than the phase of the use; sometimes the order is violated
                upto = PHASES.index(ph)
                cand = [p for p in PHASES[:upto + 1] if p != 'act'] or ['setup']
                later = [p for p in PHASES[upto + 1:] if p != 'act']
                if not rng.chance(0.12):
                    phases[rng.choice(cand)] += chain
                    phases[ph].append(use)
                elif later and rng.chance(0.5):
                    phases[rng.choice(later)] += chain
                    phases[ph].append(use)
                elif ph != 'act':
                    phases[ph] += [use] + chain
                else:
                    phases['before-assert'] += chain
                    phases[ph].append(use)
                if not phases['act'] and (ph != 'act') and rng.chance(0.3):
                    phases['act'] = [dict(kind='use', src='probe.sh', vals=[('lst', [])], act=True)]
                progs.append(finish_program(rng, phases))
    return progs


# ---------------------------------------------------------------------------------------------
# (T) the type-compatibility matrix, tabulated from the live restriction objects
# ---------------------------------------------------------------------------------------------
def gen_tables(ctx):
    """For every context (the restriction object the real parser attaches to a reference standing there) and every
    kind of definition (13 types; paths of every relativity and absolute) ask the LIVE restriction whether it is
    satisfied by the LIVE container of a constant definition.  Written to coq/Gen/C08_types.v; Props/C08.v proves
    that the model's [restr_sat] and the specification's [restr_ok] give the same answers."""
    from exactly_lib.util.symbol_table import SymbolTable
    base = tempfile.mkdtemp(prefix='c08t-', dir=ctx.work)
    try:
        home = os.path.join(base, 'home')
        os.makedirs(home)
        with open(os.path.join(home, 'probe.sh'), 'w') as f:
            f.write('#!/bin/sh\n')
        os.chmod(os.path.join(home, 'probe.sh'), 0o755)
        live = Live(home)
        nm = Namer(live)
        rng = common.Rng(1)
        case = os.path.join(home, 't.case')
        # contexts -> restriction objects
        restrs = []
        for cx in CONTEXTS:
            ph, use = context_use(cx, 'X0', 0)
            prog = finish_program(rng, {p: ([use] if p == ph else []) for p in PHASES})
            text, _ = program_text(prog)
            parsed = live.parse(case, text)
            usages = parsed[ph][0][1]
            refs = []
            for u in usages:
                refs += list(u.references) if hasattr(u, 'symbol_container') else [u]
            refs = [r for r in refs if r.name == 'X0']
            if not refs:
                raise RuntimeError('context %s: no reference to X0 reported' % cx)
            restrs.append((cx, refs[0].restrictions))
        # definitions -> live containers + model terms
        defs = []
        for tid in TYPE_IDS:
            variants = range(6) if tid == 'path' else [0]
            for k in variants:
                d = const_def(tid, 'X0', k)
                defs.append((tid + (':' + REL_ORDER[k % 6] if tid == 'path' else ''), d))
        defs.append(('path:absolute', dict(kind='def', name='X0', tid='path', src='def path X0 = /abs/x', val=('pconst', None, '/abs/x'))))
        rows = []
        for label, d in defs:
            prog = finish_program(rng, {p: ([d] if p == 'setup' else []) for p in PHASES})
            text, _ = program_text(prog)
            parsed = live.parse(case, text)
            definition = parsed['setup'][0][1][0]
            container = definition.symbol_container
            term = instr_term(d, parsed['setup'][0][1], live, nm)  # (IDef n (Cont ..))
            cont = term[term.index('(Cont'):-1]
            table = SymbolTable({'X0': container})
            for cx, r in restrs:
                ok = r.is_satisfied_by(table, 'X0', container) is None
                rows.append('(%s, %s, %s)' % (restr_term(r), cont, cbool(ok)))
        txt = ('(* GENERATED on every run by harness/c08.py from the live restriction objects of /repo/src. Do not edit.\n'
               '   contexts: %s\n   definitions: %s *)\n' % (', '.join(CONTEXTS), ', '.join(l for l, _ in defs)) +
               'From Coq Require Import NArith List Bool.\nFrom Exactly Require Import Model.Symbols.\nImport ListNotations.\n\n'
               'Definition gen_type_matrix : list (restr * container * bool) :=\n  %s.\n' % clist(rows, None).replace('); (', ');\n   ('))
        common.write_if_changed(os.path.join(common.COQ, 'Gen', 'C08_types.v'), txt)
    finally:
        shutil.rmtree(base, ignore_errors=True)


def path_chain_programs(rng):
    """chains of 3-5 path symbols, each relative to the previous one (`-rel SYM x` / `@[SYM]@/x` / `@[SYM]@`), over every
    bottom relativity (and an absolute bottom), bottom suffix empty / one / several components; every link of the chain is
    rendered in a file and handed to the act phase's probe"""
    progs = []
    builtin_of = {'REL_HDS_CASE': 'EXACTLY_HOME', 'REL_HDS_ACT': 'EXACTLY_ACT_HOME', 'REL_ACT': 'EXACTLY_ACT',
                  'REL_TMP': 'EXACTLY_TMP', 'REL_RESULT': 'EXACTLY_RESULT'}
    k = 0
    for bottom in REL_ORDER + ['abs']:
        for bsfx in ('', 'a', 'a/b'):
            for depth in (3, 4, 5):
                for pattern in ('relsym', 'pref', 'mixed'):
                    k += 1
                    defs = []
                    if bottom == 'abs':
                        txt = '/abs' + ('/' + bsfx if bsfx else '')
                        defs.append(dict(kind='def', name='P1', tid='path', src='def path P1 = %s' % txt, val=('pconst', None, txt)))
                    elif bsfx == '' and bottom in builtin_of:
                        defs.append(dict(kind='def', name='P1', tid='path', src='def path P1 = @[%s]@' % builtin_of[bottom],
                                         val=('pref', builtin_of[bottom], [], 'REL_CWD')))
                    else:
                        sf = bsfx or 'z'
                        defs.append(dict(kind='def', name='P1', tid='path', src='def path P1 = %s %s' % (REL_OPT[bottom], sf),
                                         val=('prelopt', bottom, [('c', sf)])))
                    for d in range(2, depth + 1):
                        prev, nm = 'P%d' % (d - 1), 'P%d' % d
                        form = pattern if pattern != 'mixed' else ('relsym' if (d + k) % 2 else 'pref')
                        lsfx = ['b', 'c/d', 'e', ''][(d + k) % 4]
                        if form == 'relsym':
                            lsfx = lsfx or 'f'
                            defs.append(dict(kind='def', name=nm, tid='path', src='def path %s = -rel %s %s' % (nm, prev, lsfx),
                                             val=('prelsym', prev, [('c', lsfx)])))
                        else:
                            tail = [('c', '/' + lsfx)] if lsfx else []
                            defs.append(dict(kind='def', name=nm, tid='path',
                                             src='def path %s = @[%s]@%s' % (nm, prev, '/' + lsfx if lsfx else ''),
                                             val=('pref', prev, tail, 'REL_CWD')))
                    fr = []
                    for d in range(depth, 0, -1):
                        fr += [('s', 'P%d' % d), ('c', '|')]
                    use = dict(kind='use', src='file {FILE} = %s' % frags_src(fr), vals=[('str', fr)], file=True)
                    els = [('r', 'P%d' % depth), ('e', [('c', 'x='), ('s', 'P%d' % (depth - 1))])]
                    act = dict(kind='use', src='probe.sh @[P%d]@ "x=@[P%d]@"' % (depth, depth - 1), vals=[('lst', els)], act=True)
                    phases = {p: [] for p in PHASES}
                    cut = 1 + k % depth
                    phases['setup'] = defs[:cut] if k % 3 else defs
                    rest = [] if not k % 3 else defs[cut:]
                    if k % 2:
                        phases['setup'] += rest
                        phases['act'] = [act]
                        phases['before-assert'] = [use]
                    else:
                        phases['before-assert'] = rest + [use]  # (no act phase: it would see only the definitions of [setup])
                    progs.append(finish_program(rng, phases))
    return progs


def special_programs(rng):
    """self references, mutual forward references, duplicate definitions in every pair of phases (builtins included)"""
    progs = []
    non_act = [p for p in PHASES if p != 'act']

    def one(phases_map):
        phases = {p: [] for p in PHASES}
        for p, lst in phases_map.items():
            phases[p] = lst
        progs.append(finish_program(rng, phases))

    selfs = [dict(kind='def', name='X', tid='string', src='def string X = "a@[X]@"', val=('str', [('c', 'a'), ('s', 'X')])),
             dict(kind='def', name='X', tid='list', src='def list X = a @[X]@', val=('lst', [('e', [('c', 'a')]), ('r', 'X')])),
             dict(kind='def', name='X', tid='path', src='def path X = @[X]@/a', val=('pref', 'X', [('c', '/a')], 'REL_CWD')),
             dict(kind='def', name='X', tid='path', src='def path X = -rel X a', val=('prelsym', 'X', [('c', 'a')])),
             dict(kind='def', name='X', tid='path', src='def path X = -rel-act @[X]@', val=('prelopt', 'REL_ACT', [('s', 'X')]))]
    for tid, tmpls in sorted(LOGIC_TEMPLATES.items()):
        for t in tmpls:
            if '{L:%s}' % tid in t:
                txt = t.replace('{L:%s}' % tid, 'X')
                if '{' in txt.replace('{ ', '').replace(' }', ''):
                    continue
                selfs.append(dict(kind='def', name='X', tid=tid, src='def %s X = %s' % (tid, txt), val=('other', ['X'])))
    import copy
    for d in selfs:
        for ph in non_act:
            one({ph: [copy.deepcopy(d)]})
            # ... and with a later use of the symbol
            fr = [('s', 'X')]
            if d['tid'] in ('string', 'list', 'path'):
                one({ph: [copy.deepcopy(d)], 'cleanup': ([copy.deepcopy(d)] if False else []) +
                     [dict(kind='use', src='file {FILE} = %s' % frags_src(fr), vals=[('str', fr)], file=True)]}
                    if ph != 'cleanup' else
                    {ph: [copy.deepcopy(d), dict(kind='use', src='file {FILE} = %s' % frags_src(fr), vals=[('str', fr)], file=True)]})
    # mutual forward reference
    for p1 in non_act:
        for p2 in non_act:
            if PHASES.index(p1) <= PHASES.index(p2):
                a = dict(kind='def', name='A', tid='string', src='def string A = "@[B]@"', val=('str', [('s', 'B')]))
                b = dict(kind='def', name='B', tid='string', src='def string B = "b"', val=('str', [('c', 'b')]))
                if p1 == p2:
                    one({p1: [a, b]})
                    one({p1: [b, a]})
                else:
                    one({p1: [a], p2: [b]})
                    one({p1: [b], p2: [a]})
    # duplicates: same name defined in two phases (all pairs), same or different type; builtin names
    k = 0
    for p1 in non_act:
        for p2 in non_act:
            if PHASES.index(p1) <= PHASES.index(p2):
                for name in ('D', 'TAB', 'EXACTLY_ACT'):
                    k += 1
                    t1, t2 = TYPE_IDS[k % len(TYPE_IDS)], TYPE_IDS[(k * 5 + 1) % len(TYPE_IDS)]
                    d1, d2 = const_def(t1, name, k), const_def(t2, name, k + 1)
                    if name == 'D':
                        if p1 == p2:
                            one({p1: [d1, d2]})
                        else:
                            one({p1: [d1], p2: [d2]})
                    else:
                        one({p1: [d1]} if p1 == p2 else {p1: [const_def('string', 'Q', k)], p2: [d2]})
    return progs


# ---------------------------------------------------------------------------------------------
# Coq terms
# ---------------------------------------------------------------------------------------------
class Namer:
    def __init__(self, live):
        self.ids = {n: i for i, n in enumerate(live.builtin_names)}

    def __call__(self, n):
        if n not in self.ids:
            self.ids[n] = 100 + len(self.ids)
        return cN(self.ids[n])


class RefMismatch(Exception):
    pass


def ref_term(nm, name, restr):
    return '(Ref %s %s)' % (nm(name), restr_term(restr))


class RefFeed:
    """hands out the live references in order, checking the names against the generated source"""

    def __init__(self, refs, nm, lenient=None):
        self.refs, self.nm, self.i = list(refs), nm, 0
        self.lenient = lenient  # a list collecting messages: the term is then built from the SOURCE's references

    def next(self, name):
        if self.i >= len(self.refs) or self.refs[self.i].name != name:
            msg = 'reference #%d: source has %s, the parsed instruction reports %s' % (self.i, name, [r.name for r in self.refs])
            if self.lenient is None:
                raise RefMismatch(msg)
            self.lenient.append(msg)
            self.i = len(self.refs) + 1000  # from here on only the source counts
            return '(Ref %s any_data)' % self.nm(name)
        r = self.refs[self.i]
        self.i += 1
        return ref_term(self.nm, r.name, r.restrictions)

    def done(self):
        if self.i != len(self.refs) and self.i < 1000:
            msg = 'the parsed instruction reports more references than the source has: %s' % [r.name for r in self.refs]
            if self.lenient is None:
                raise RefMismatch(msg)
            self.lenient.append(msg)


def frags_term(frags, feed):
    if not frags:
        return '(@nil frag)'
    return clist(['(FConst %s)' % ctext(f[1]) if f[0] == 'c' else '(FSym %s)' % feed.next(f[1]) for f in frags])


def val_term(val, feed):
    k = val[0]
    if k == 'str':
        return '(SStr %s)' % frags_term(val[1], feed)
    if k == 'lst':
        if not val[1]:
            return '(SLst (@nil elem))'
        return '(SLst %s)' % clist(['(ESym %s)' % feed.next(e[1]) if e[0] == 'r' else '(EStr %s)' % frags_term(e[1], feed)
                                    for e in val[1]])
    if k == 'pconst':
        return '(SPth (PConst %s %s))' % (copt(val[1], lambda r: REL_COQ[r]), ctext(val[2]))
    if k == 'prelopt':
        return '(SPth (PRelOpt %s %s))' % (REL_COQ[val[1]], frags_term(val[2], feed))
    if k == 'prelsym':
        b = feed.next(val[1])
        return '(SPth (PRelSym %s %s))' % (b, frags_term(val[2], feed))
    if k == 'pref':
        r = feed.next(val[1])
        return '(SPth (PRef %s %s %s))' % (r, frags_term(val[2], feed), REL_COQ[val[3]])
    raise ValueError(val)


def string_values(prog):
    """the fragment lists of every string value of the program (strings, string elements of lists, here-documents,
    command lines)"""
    out = []
    for ph in PHASES:
        for ins in prog['phases'][ph]:
            vs = list(ins.get('vals', [])) + ([ins['val']] if ins['kind'] == 'def' else [])
            for v in vs:
                if v[0] == 'str':
                    out.append(v[1])
                elif v[0] == 'lst':
                    out += [e[1] for e in v[1] if e[0] == 'e']
            if ins.get('cmdline') is not None:
                out.append(ins['cmdline'])
    return out


def splits_term(prog):
    rows = []
    for fr in string_values(prog):
        fr = merge_consts(fr)  # an empty constant is no fragment of the text
        if not fr:
            continue
        raw = frags_src(fr, quote=False)
        exp = clist(['(inl %s)' % ctext(f[1]) if f[0] == 'c' else '(inr %s)' % ctext(f[1]) for f in fr])
        rows.append('(%s, %s)' % (ctext(raw), exp))
    return clist(rows) if rows else '(@nil (text * list (text + text)))'


def refs_term(refs, nm):
    if not refs:
        return '(@nil ref)'
    return clist([ref_term(nm, r.name, r.restrictions) for r in refs])


def instr_term(ins, usages, live, nm, lenient=None):
    from exactly_lib.symbol.sdv_structure import SymbolReference, SymbolDefinition
    if ins['kind'] == 'def':
        if len(usages) != 1 or not isinstance(usages[0], SymbolDefinition) or usages[0].name != ins['name']:
            raise RefMismatch('a def instruction reports usages %r' % [(type(u).__name__, u.name) for u in usages])
        d = usages[0]
        vt = d.symbol_container.value_type.name
        if ins['val'][0] == 'other':
            live_refs = list(d.references)
            if ins.get('src_refs') is not None and [r.name for r in live_refs] != [n for n, _ in ins['src_refs']]:
                msg = 'definition of %s: source has %s, the parsed value reports %s' % (
                    ins['name'], [n for n, _ in ins['src_refs']], [r.name for r in live_refs])
                if lenient is None:
                    raise RefMismatch(msg)
                lenient.append(msg)
                sdv = '(SOther %s)' % (clist(['(Ref %s %s)' % (nm(n), pl) for n, pl in ins['src_refs']]) if ins['src_refs'] else '(@nil ref)')
            else:
                sdv = '(SOther %s)' % refs_term(live_refs, nm)
        else:
            feed = RefFeed(d.references, nm, lenient)
            sdv = val_term(ins['val'], feed)
            feed.done()
        return '(IDef %s (Cont %s %s))' % (nm(ins['name']), VT_COQ[vt], sdv)
    if ins['kind'] in ('stop', 'prep'):
        if usages:
            raise RefMismatch('an instruction without symbols reports usages')
        return '(IStop %s)' % cbool(ins['hard']) if ins['kind'] == 'stop' else '(IUse (@nil ref) (@nil sdv))'
    if any(not isinstance(u, SymbolReference) for u in usages):
        raise RefMismatch('a non-def instruction reports a definition')
    if ins['vals']:
        feed = RefFeed(usages, nm, lenient)
        vals = clist([val_term(v, feed) for v in ins['vals']])
        feed.done()
    else:
        vals = '(@nil sdv)'
    src_refs = ins.get('src_refs')
    if src_refs is None and ins.get('cmdline') is not None:
        src_refs = [(n, 'any_data') for n in ins['names']]
    if src_refs is not None and [u.name for u in usages] != [n for n, _ in src_refs]:
        msg = 'source has %s, the parsed instruction reports %s' % ([n for n, _ in src_refs], [u.name for u in usages])
        if lenient is None:
            raise RefMismatch(msg)
        lenient.append(msg)
        return '(IUse %s %s)' % (clist(['(Ref %s %s)' % (nm(n), pl) for n, pl in src_refs]) if src_refs else '(@nil ref)', vals)
    return '(IUse %s %s)' % (refs_term(usages, nm), vals)


def obs_term(o):
    vals = clist(['(%s, %s, %s)' % (PH_COQ[p], cnat(i), clist([ctext(t) for t in ts]) if ts else '(@nil text)')
                  for p, i, ts in o['values']]) if o['values'] else '(@nil observation)'
    if o['failing'] == 'unknown':
        failing = 'None'
    else:
        failing = '(Some %s)' % copt(o['failing'], lambda f: '(%s, %s)' % (PH_COQ[f[0]], cnat(f[1])))
    return '(C08Obs %s %s %s %s)' % (VERDICTS[o['verdict']], failing, cbool(o['sandbox']), vals)


# ---------------------------------------------------------------------------------------------
# running one program on the real implementation
# ---------------------------------------------------------------------------------------------
class Runner:
    def __init__(self, work):
        self.base = tempfile.mkdtemp(prefix='c08-', dir=work)
        self.home = os.path.join(self.base, 'home')
        self.sb = os.path.join(self.base, 'sb')
        self.scratch = os.path.join(self.base, 'scratch')
        for d in (self.home, self.sb, self.scratch):
            os.makedirs(d)
        probe = os.path.join(self.home, 'probe.sh')
        with open(probe, 'w') as f:
            f.write('#!/bin/sh\nfor a in "$@"; do printf "[%s]\\n" "$a"; done\n')
        os.chmod(probe, 0o755)
        shutil.copy(probe, os.path.join(self.home, 'interp.sh'))
        self.case = os.path.join(self.home, 't.case')
        self.mp = impl.main_program(self.sb)
        self.live = Live(self.home)

    def close(self):
        shutil.rmtree(self.base, ignore_errors=True)

    def roots(self, sds_dir):
        """the directory of every relativity, from the live root resolvers; canonical names /SB and /HOME"""
        from exactly_lib.tcfs import relative_path_options
        from exactly_lib.tcfs.path_relativity import RelOptionType
        from exactly_lib.tcfs.sds import SandboxDs
        from exactly_lib.tcfs.hds import HomeDs
        sds = SandboxDs(pathlib.Path(sds_dir if sds_dir else '/SB'))
        hds = HomeDs(pathlib.Path(self.home), pathlib.Path(self.home))
        out = []
        for r in REL_ORDER:
            rr = relative_path_options.REL_OPTIONS_MAP[RelOptionType[r]].root_resolver
            if r == 'REL_CWD':
                p = sds.act_dir  # no cd instruction is generated
            elif r in ('REL_HDS_CASE', 'REL_HDS_ACT'):
                p = rr.from_hds(hds)
            else:
                p = rr.from_non_hds(sds)
            out.append(self.canon(str(p), sds_dir))
        return out

    def canon(self, s, sds_dir):
        if sds_dir:
            s = s.replace(sds_dir, '/SB')
        return s.replace(self.home, '/HOME')

    def run(self, prog):
        assert_safe(prog)
        text, where = program_text(prog)
        with open(self.case, 'w') as f:
            f.write(text)
        for fn in os.listdir(self.sb):
            shutil.rmtree(os.path.join(self.sb, fn), ignore_errors=True)
        r = impl.run_main(self.mp, ['--keep', self.case], self.home, self.scratch)
        err_lines = r.err.split('\n')
        ident = err_lines[0].strip() if err_lines else ''
        made = os.listdir(self.sb)
        sds_dir = os.path.join(self.sb, made[0]) if made else None
        o = dict(verdict=ident, sandbox=bool(made), values=[], failing='unknown', exception=repr(r.exception) if r.exception else None,
                 exit_code=r.exit_code, report=self.canon(r.err, sds_dir)[:600])
        if sds_dir is not None and r.out.strip().split('\n')[0].strip() != sds_dir:
            o['exception'] = 'stdout of --keep does not name the sandbox: %r' % r.out[:200]
        # where the failure is attributed to: "In [phase]" and ", line N"
        if ident == 'PASS':
            o['failing'] = None
        else:
            ph = ln = None
            for l in err_lines[1:8]:
                l = l.strip()
                if l.startswith('In [') and l.endswith(']') and ph is None:
                    ph = l[4:-1]
                elif ', line ' in l and ln is None and l.split(', line ')[-1].strip().isdigit():
                    ln = int(l.split(', line ')[-1])
            if ph == 'act':
                o['failing'] = ('act', 0)
            elif ph in PHASES and ln in where and where[ln][0] == ph:
                o['failing'] = where[ln]
        if sds_dir is not None:
            for ph in PHASES:
                for ins in prog['phases'][ph]:
                    if ins.get('fname'):
                        p = os.path.join(sds_dir, 'act', ins['fname'])
                        if os.path.exists(p):
                            o['values'].append((ph, ins['idx'], [self.canon(open(p, newline='').read(), sds_dir)]))
                    elif ins.get('act'):
                        p = os.path.join(sds_dir, 'result', 'stdout')
                        if os.path.exists(p):
                            out = open(p, newline='').read()
                            parts = out.split(']\n')
                            if parts[-1] != '' or any(not x.startswith('[') for x in parts[:-1]):
                                o['exception'] = 'probe output not understood: %r' % out[:200]
                            o['values'].append((ph, ins['idx'], [self.canon(x[1:], sds_dir) for x in parts[:-1]]))
        o['roots'] = self.roots(sds_dir)
        if sds_dir is not None:
            shutil.rmtree(sds_dir, ignore_errors=True)
        return text, o

    def case_term(self, prog, text, o, lenient=None):
        """-> Coq term of the case (raises RefMismatch unless lenient is a list)"""
        live = self.live
        nm = Namer(live)
        parsed = live.parse(self.case, text)
        counters = {p: 0 for p in PHASES}
        secs = []
        for ph, lst in prog['sections']:
            terms = []
            for ins in lst:
                if ph == 'act':
                    usages = parsed['act'][0][1]
                else:
                    ln, usages = parsed[ph][counters[ph]]
                    if ln != ins['line']:
                        raise RefMismatch('instruction %d of [%s] is at line %s, generated at line %d' % (counters[ph], ph, ln, ins['line']))
                counters[ph] += 1
                terms.append(instr_term(ins, usages, live, nm, lenient))
            secs.append('(%s, %s)' % (PH_COQ[ph], clist(terms) if terms else '(@nil instr)'))
        for ph in PHASES:
            if ph != 'act' and counters[ph] != len(parsed[ph]):
                raise RefMismatch('[%s]: %d instructions generated, %d parsed' % (ph, counters[ph], len(parsed[ph])))
        if not prog['phases']['act'] and parsed['act'][0][1]:
            raise RefMismatch('an empty act phase reports usages')
        return '(C08Case %s builtins %s %s %s)' % (clist([ctext(t) for t in o['roots']]),
                                                   clist(secs) if secs else '(@nil (phase * list instr))',
                                                   splits_term(prog), obs_term(o))

    def builtins_def(self):
        nm = Namer(self.live)
        return 'Definition builtins : table := %s.\n' % clist(
            ['(%s, Cont %s %s)' % (nm(n), VT_COQ[vt], t) for n, vt, t in self.live.builtins])


# ---------------------------------------------------------------------------------------------
# the known finding: predicate on the INPUT
# ---------------------------------------------------------------------------------------------
def kf_predicate(prog):
    """a [cleanup] instruction references (directly or through other symbols) a symbol whose defining instruction's
    main step is scheduled after a step that fails"""
    skipped = set()  # names whose definition's main step does not run
    refs_of = {}
    stopped = False
    for ph in ('setup', 'act', 'before-assert', 'assert'):
        for ins in prog['phases'][ph]:
            if ins['kind'] == 'def':
                refs_of.setdefault(ins['name'], val_names(ins['val']))
                if stopped:
                    skipped.add(ins['name'])
            if ins['kind'] == 'stop':
                stopped = True
    if not skipped:
        return False
    for ins in prog['phases']['cleanup']:
        if ins['kind'] == 'def':
            refs_of.setdefault(ins['name'], val_names(ins['val']))

    def reaches(n, seen):
        if n in skipped:
            return True
        if n in seen:
            return False
        seen.add(n)
        return any(reaches(m, seen) for m in refs_of.get(n, []))

    for ins in prog['phases']['cleanup']:
        if ins['kind'] == 'use':
            names = []
            for v in ins.get('vals', []):
                names += val_names(v)
            names += ins.get('names', [])
            if any(reaches(n, set()) for n in names):
                return True
    return False


def prog_json(prog, text, o):
    return {'test_case_file': text, 'observed': {k: o[k] for k in ('verdict', 'sandbox', 'values', 'failing', 'exit_code', 'exception', 'report')},
            'run': 'cd <dir with the file and an executable probe.sh printing "[arg]" per line>; exactly --keep t.case'}


def is_nontrivial(prog, o):
    """a violation is present, or a reference goes through at least one other definition"""
    if o['verdict'] == 'VALIDATION_ERROR':
        return True
    with_refs = set()
    for ph in PHASES:
        for ins in prog['phases'][ph]:
            if ins['kind'] == 'def' and val_names(ins['val']):
                with_refs.add(ins['name'])
    for ph in PHASES:
        for ins in prog['phases'][ph]:
            names = []
            if ins['kind'] == 'def':
                names = val_names(ins['val'])
            elif ins['kind'] == 'use':
                for v in ins.get('vals', []):
                    names += val_names(v)
                names += ins.get('names', [])
            if any(n in with_refs for n in names):
                return True
    return False


CORPUS = [
    # A10: the known finding
    {'setup': [], 'act': [dict(kind='use', src='probe.sh', vals=[('lst', [])], act=True)], 'before-assert': [],
     'assert': [dict(kind='stop', hard=False, src='exit-code != 0'),
                dict(kind='def', name='X', tid='string', src='def string X = "a"', val=('str', [('c', 'a')]))],
     'cleanup': [dict(kind='use', src='file {FILE} = "@[X]@"', vals=[('str', [('s', 'X')])], file=True)]},
    # FIX-C08-1 (repaired in /repo, 88ac72e): a REGEX operand that references a path of the home directory structure
    {'setup': [dict(kind='def', name='E', tid='string', src='def string E = "a@[EXACTLY_ACT_HOME]@"',
                    val=('str', [('c', 'a'), ('s', 'EXACTLY_ACT_HOME')])),
               dict(kind='def', name='T', tid='text-transformer', src='def text-transformer T = replace @[E]@ b', val=('other', ['E'])),
               dict(kind='use', src='file u1.txt = "ab" -transformed-by T', vals=[], names=['T']),
               dict(kind='def', name='M', tid='text-matcher', src='def text-matcher M = matches @[E]@', val=('other', ['E'])),
               dict(kind='use', src='file u2.txt = "ab" -transformed-by filter contents M', vals=[], names=['M'])],
     'act': [], 'before-assert': [], 'assert': [], 'cleanup': []},
]


def run(ctx, res, programs=None):
    rng = ctx.rng
    runner = Runner(ctx.work)
    try:
        _run(ctx, res, rng, runner, programs)
    finally:
        runner.close()


def _run(ctx, res, rng, runner, programs):
    n_random = 2500 if ctx.quick else 30000
    res.rule = ('generated test-case files: 2-10 def/reference instructions over all 13 value types in monotone phases, '
                'sections in shuffled file order / split, symbols chosen 70% well-typed earlier, 10% builtin, 10% any earlier, '
                '10% from the pool (later/undefined), duplicates 14%, failing instruction 4%; + systematic stream: every '
                '(defined type, context) pair through 0-3 indirect steps; self references, mutual forward references and '
                'duplicate definitions (builtin names included) in every pair of phases. non-trivial := the case is rejected '
                '(VALIDATION_ERROR) or some reference names a definition that itself has references; distinct := '
                'distinct file text')
    if programs is None:
        programs = []
        import copy
        for c in CORPUS:
            programs.append(finish_program(common.Rng(1), copy.deepcopy(c)))
        programs += systematic_programs(rng, ctx.quick)
        programs += special_programs(rng)
        programs += path_chain_programs(rng)
        programs += [gen_program(rng, runner.live, ctx.quick) for _ in range(n_random)]
    terms, kept = [], []
    for prog in programs:
        text, o = runner.run(prog)
        cj = prog_json(prog, text, o)
        if o['exception'] or o['verdict'] not in VERDICTS:
            res.count('verdict:' + str(o['verdict'])[:30])
            res.disagreements.append(Failure('correspondence', cj, 'the run ended in a way the model has no counterpart for: '
                                                                   '%s %s' % (o['verdict'], o['exception'])))
            continue
        mismatch = None
        try:
            term = runner.case_term(prog, text, o)
        except RefMismatch as ex:
            # the tie is broken for this case; the property predicate is still evaluated, on the references the SOURCE
            # contains with the restrictions their positions demand
            res.disagreements.append(Failure('correspondence', cj, 'references reported by the parsed instruction differ from '
                                                                   'the references in the source: %s' % ex))
            msgs = []
            try:
                term = runner.case_term(prog, text, o, lenient=msgs)
            except RefMismatch:
                continue
            mismatch = True
        terms.append(term)
        kept.append((prog, text, o, cj, mismatch))
        res.count('verdict:' + o['verdict'])
        res.count('instructions:%d' % sum(len(prog['phases'][p]) for p in PHASES))
        if is_nontrivial(prog, o):
            res.nontrivial.add(text)
    res.evaluations = len(programs)
    res.samples = [kept[i][3] for i in (0, len(kept) // 2, len(kept) - 1) if kept]
    cb, pb, errs = common.run_shards('C08', ['Model.Exec', 'Model.Symbols', 'Spec.C08'], 'check_case', terms,
                                     extra_defs=runner.builtins_def(), shard_size=200)
    res.errors += errs
    for i in pb:
        prog, text, o, cj, mismatch = kept[i]
        listed = kf_predicate(prog)
        if listed:
            res.count('known finding exercised')
        res.prop_failures.append(Failure('property', cj,
                                         'the observed behaviour violates C08: a rejected case was not reported as '
                                         'VALIDATION_ERROR before anything executed, or an accepted case did not evaluate every '
                                         'reference to the defined value (verdict %s)' % o['verdict'],
                                         finding=KF_ID if listed else None))
    for i in cb:
        prog, text, o, cj, mismatch = kept[i]
        if mismatch:
            continue  # already recorded
        res.disagreements.append(Failure('correspondence', cj, 'Model/Symbols.v (sym_execute) and the implementation differ'))


def search(ctx, res):
    """failing-input search: a larger random batch from a fresh stream of the same generator"""
    res2 = common.Result()
    runner = Runner(ctx.work)
    try:
        rng = common.Rng(ctx.seed * 7919 + 13)
        progs = special_programs(rng) + path_chain_programs(rng) + [gen_program(rng, runner.live, False) for _ in range(1500)]
        _run(ctx, res2, rng, runner, progs)
    finally:
        runner.close()
    return res2.prop_failures


def replay(ctx, payload):
    case = payload.get('case') or (payload.get('correspondence_disagreements') or [{}])[0].get('case')
    print(json.dumps(case, indent=1, default=str))
    if case and case.get('test_case_file'):
        runner = Runner(ctx.work)
        try:
            with open(runner.case, 'w') as f:
                f.write(case['test_case_file'])
            r = impl.run_main(runner.mp, [runner.case], runner.home, runner.scratch)
            print('--- real program now: exit code', r.exit_code)
            print(r.out[:500])
            print(r.err[:1500])
        finally:
            runner.close()
    return 0
