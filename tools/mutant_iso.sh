#!/bin/bash
# tools/mutant_iso.sh PATCH PROP [tier]
# Run ./check PROP against a scratch worktree of /repo with PATCH applied, from a scratch COPY of /verif,
# so that neither /repo nor /verif (work/, evidence/, coq/Gen) is disturbed.  Everything is removed afterwards.
# Prints the check output; exit code = exit code of the check (1 = the mutant was caught).
set -u
PATCH="$(readlink -f "$1")"; PROP="$2"; TIER="${3:-quick}"
ISO=/tmp/iso/$PROP-$$
mkdir -p $ISO
git -C /repo worktree add -q --detach $ISO/repo HEAD || exit 2
if ! git -C $ISO/repo apply "$PATCH"; then echo "patch does not apply"; git -C /repo worktree remove --force $ISO/repo; rm -rf $ISO; exit 2; fi
rsync -a --exclude .git --exclude work --exclude replays /verif/ $ISO/verif/
mkdir -p $ISO/verif/work $ISO/verif/replays
( cd $ISO/verif && VERIF_REPO=$ISO/repo ./check "$PROP" --tier "$TIER" ); rc=$?
for f in $ISO/verif/replays/$PROP-*.json; do [ -f "$f" ] && { echo "--- replay $(basename $f) (first 60 lines)"; head -60 "$f"; break; }; done
git -C /repo worktree remove --force $ISO/repo
rm -rf $ISO
echo "mutant_iso: check exit=$rc"
exit $rc
