#!/bin/bash
# tools/try_mutant.sh PATCH PROP [tier]  : apply PATCH to /repo, run ./check PROP, undo the patch.
set -u
PATCH="$(readlink -f "$1")"; PROP="$2"; TIER="${3:-quick}"
cd /verif
git -C /repo apply "$PATCH" || { echo "patch does not apply"; exit 2; }
./check "$PROP" --tier "$TIER"; rc=$?
git -C /repo checkout -- . 
echo "check exit=$rc"
exit $rc
