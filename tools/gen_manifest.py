#!/usr/bin/env python3
"""Regenerate MANIFEST.json from tools/manifest_data.py (single source, always schema-valid)."""
import json, os, sys
HERE = os.path.dirname(os.path.abspath(__file__))
sys.path.insert(0, HERE)
import manifest_data as md
props = [json.loads(l)['id'] for l in open(os.path.join(HERE, '..', 'properties.jsonl'))]
checks = []
for pid in props:
    if pid not in md.CLAIMED:
        continue
    c = md.CLAIMED[pid]
    checks.append({
        'property_id': pid,
        'quick_cmd': './check %s --tier quick' % pid,
        'thorough_cmd': './check %s --tier thorough' % pid,
        'evidence_file': 'evidence/%s.json' % pid,
        'replay_cmd_template': './check %s --replay {path}' % pid,
        'engine': 'coq-model+correspondence',
        'level_claimed': {'category': 'proof', 'text': c['text'], 'design_ref': 'DESIGN.md section 6 ' + pid},
        'level_note': c['note'],
        'technique': c['technique'],
    })
m = {
    'version': 1,
    'setup_cmd': './setup.sh',
    'hooks': {'guard': 'EXACTLY_VERIF', 'enable': 'no hooks exist: the checks drive /repo/src in process through public entry points (export EXACTLY_VERIF=1 is set by ./check but nothing reads it)',
              'baseline_off_cmd': 'cd /repo && /venv/bin/python -m pytest -ra -q -p no:cacheprovider --timeout=900 --continue-on-collection-errors',
              'source_commits': [], 'add_only': True},
    'engines': [{'name': 'coq-model+correspondence', 'path': '/verif/check', 'serves_properties': sorted(md.CLAIMED),
                 'kind_free_text': 'Coq 8.16.1 theorems over hand-written Gallina models (coq/), tied to /repo on every run by tables regenerated from the running code (coq/Gen) and a differential correspondence check evaluated with vm_compute (harness/)'}],
    'checks': checks,
    'notes': md.NOTES,
    'not_applicable': [{'property_id': p, 'reason': md.NOT_CLAIMED.get(p, 'check not built yet in this session (work in progress); not claimed')} for p in props if p not in md.CLAIMED],
}
json.dump(m, open(os.path.join(HERE, '..', 'MANIFEST.json'), 'w'), indent=1)
print('claimed:', sorted(md.CLAIMED), 'not claimed:', [p for p in props if p not in md.CLAIMED])
