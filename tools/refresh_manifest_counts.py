#!/usr/bin/env python3
"""Bring the theorem counts quoted in tools/manifest_data.py in line with the evidence files (run after the final quick runs)."""
import json, re
p = '/verif/tools/manifest_data.py'
s = open(p).read()
for i in range(1, 21):
    pid = 'C%02d' % i
    th = json.load(open('/verif/evidence/%s.json' % pid))['coverage']['theorems']
    names = th['full'] + th['partial'] + th['refuted']
    own = [n for n in names if n.startswith(pid + '_')]
    tie = [n for n in names if n.startswith('SrcTie_')]
    comp = [n for n in names if n not in own and n not in tie]
    a = s.find("CLAIMED['%s'] = {" % pid)
    if a < 0:
        a = s.find("'%s': {" % pid)
    nxt = [x.start() for x in re.finditer(r"^CLAIMED\['C\d\d'\] = \{", s, re.M) if x.start() > a]
    b = min(nxt) if nxt else len(s)
    block = s[a:b]
    extra = ''
    if comp or tie:
        extra = ' (+ %s%s%s built and assumption-checked with this check)' % (
            '%d composition theorems' % len(comp) if comp else '', ' and ' if comp and tie else '',
            '%d source-tie theorems' % len(tie) if tie else '')
    new_block, n = re.subn(r"(\d+) theorems closed under the global context(?: \(\+ [^)]*\))?",
                           '%d theorems closed under the global context%s' % (len(own), extra), block, count=1)
    if n == 0:
        print(pid, 'no count phrase; own=%d comp=%d tie=%d' % (len(own), len(comp), len(tie)))
    s = s[:a] + new_block + s[b:]
open(p, 'w').write(s)
