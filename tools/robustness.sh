#!/bin/bash
# tools/robustness.sh SEED... : quick tier of every check under the given seeds, in a scratch copy of /verif against a scratch
# worktree of /repo HEAD (neither /verif nor /repo is disturbed).  Log: /tmp/rb/log.txt (one line per run; DONE at the end).
# Remove afterwards: git -C /repo worktree remove --force /tmp/rb/repo; rm -r /tmp/rb
set -u
rm -rf /tmp/rb; mkdir -p /tmp/rb
git -C /repo worktree prune
git -C /repo worktree add -q --detach /tmp/rb/repo HEAD
rsync -a --exclude .git --exclude work --exclude replays /verif/ /tmp/rb/verif/
mkdir -p /tmp/rb/verif/work /tmp/rb/verif/replays
cd /tmp/rb/verif
: > /tmp/rb/log.txt
for s in "$@"; do
  for i in $(seq -w 1 20); do
    ( r=$(VERIF_REPO=/tmp/rb/repo VERIF_SEED=$s ./check C$i --tier quick 2>&1 | grep -E "VIOLATION|quick:" | tr '\n' ' ' | cut -c1-400); echo "seed $s: $r" >> /tmp/rb/log.txt ) &
    if (( $(jobs -r | wc -l) >= 3 )); then wait -n; fi
  done
done
wait
echo DONE >> /tmp/rb/log.txt
