NOTES = ('Technique family: machine-checked proof in Coq 8.16.1. See DESIGN.md. fix: commits in /repo: C13 interval inversion, '
         'C16 junit SYNTAX_ERROR, C18 integer expression exceptions, C09 shlex commenters.')
CORR = 'Coq theorem over hand-written Gallina model + differential correspondence (vm_compute) against the running code'
CLAIMED = {
    'C13': {
        'text': 'proof: for all line-matcher/integer-matcher expressions and all texts, the Gallina model of the read-ahead '
                'analysis + reader + per-line test equals per-line filtering (C13_filter_exact, C13_int_interval_sound, '
                'C13_line_interval_pos_sound, C13_reader_exact; closed under the global context); the pre-fix algorithm is '
                'refuted by witness. The model is tied to the code by ~4000 differential cases per quick run.',
        'note': 'trusted: Coq kernel + vm_compute; the hand-written model of matcher_interval/combinations/intervals/'
                'model_construction (checked against the running code by correspondence, not verified); contents matchers '
                'are oracles; the -line-nums half (range_merge/sources) is modelled and proved separately (see evidence).',
        'technique': CORR,
    },
}
CLAIMED['C02'] = {
    'text': 'proof: the model of translate_status / exit_values / the three reporters equals the documented table for every '
            'status, outcome, output mode and EVERY exit code of the action to check (C02_program_output_matches_doc etc., '
            'closed under the global context); regenerated-table obligations (C02_gen_*) re-tie the model to the running code '
            'over its complete finite domains on every run; ~1270 end-to-end runs of real cases through MainProgram.execute.',
    'note': 'trusted: Coq kernel + vm_compute; tabulating translator harness/c02.py; the documented table in Spec/C02.v was typed '
            'in by hand from the property statement/README; INTERNAL_ERROR endings only through synthetic results.',
    'technique': 'Coq finite-table proof + tables regenerated from running code (vm_compute obligations) + end-to-end differential runs',
}
CLAIMED['C16'] = {
    'text': 'proof: over the Gallina model of the suite reader/enumerator/executor and both reporters: a read error gives '
            'INVALID_SUITE/3 with no case processed; processing order = sub-suites first, listing order; each listing '
            'processed once; globs sorted; progress OK/0 iff all cases PASS/SKIPPED/XFAIL; JUnit tests/failures+errors/'
            'child elements; reporters agree (all closed under the global context); pre-fix JUnit classification refuted. '
            'Regenerated reporter tables (C16_gen_reporters_match) + ~500 end-to-end suite runs per quick run tie model to code; '
            'validity of a hierarchy is additionally checked against a declarative unfolding spec on every run.',
    'note': 'trusted: Coq kernel + vm_compute; harness evaluates stat/glob to build the model file system; the equivalence '
            'reader-accepts <-> declarative validity is checked per generated hierarchy by vm_compute, not yet proved in general.',
    'technique': CORR + ' + regenerated reporter tables',
}
NOT_CLAIMED = {}
