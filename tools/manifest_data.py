NOTES = ('Technique family: machine-checked proof in Coq 8.16.1. See DESIGN.md. fix: commits in /repo: C13 interval inversion, '
         'C16 junit SYNTAX_ERROR, C18 integer expression exceptions, C09 shlex commenters.')
CORR = 'Coq theorem over hand-written Gallina model + differential correspondence (vm_compute) against the running code'
CLAIMED = {
    'C13': {
        'text': 'proof: (1) filter LINE-MATCHER: for all line-matcher/integer-matcher expressions and all texts, the Gallina model of the read-ahead '
                'analysis + reader + per-line test equals per-line filtering (C13_filter_exact, C13_int_interval_sound, '
                'C13_line_interval_pos_sound, C13_reader_exact); the pre-fix algorithm is refuted by witness. (2) filter -line-nums: for all lists of '
                'ranges (any form, signs, 0, reversed, overlapping) and all texts incl. the empty one, the model of range_merge / the ten single-range '
                'streaming algorithms with their pockets / the segment walker outputs exactly the lines whose number lies in some range and raises no '
                'IndexError (C13_line_nums_exact, C13_single_range_correct, C13_multiple_ranges_correct, C13_merge_preserves_set, C13_merge_invariant, '
                'C13_segments_walk_correct, ...). All closed under the global context. Tie: ~13000 differential cases per quick run (expressions x texts; '
                'exhaustive small-scope ranges + random range lists, one transformer object applied to several texts, whole-program runs).',
        'note': 'trusted: Coq kernel + vm_compute; the hand-written models of matcher_interval/combinations/intervals/model_construction and of '
                'filter/line_nums (Python iterators as lists, deque as list, IndexError as None), checked against the running code by correspondence, not '
                'verified; contents matchers are oracles; the range-expression parser is exercised through the real parser (integer literals only); '
                'string-source plumbing (freezing, tmp files) belongs to C14.',
        'technique': CORR,
    },
}
CLAIMED['C02'] = {
    'text': 'proof: the model of translate_status / exit_values / the three reporters equals the documented table for every '
            'status, outcome, output mode and EVERY exit code of the action to check (C02_program_output_matches_doc etc., '
            'closed under the global context); regenerated-table obligations (C02_gen_*) re-tie the model to the running code '
            'over its complete finite domains on every run; ~1270 end-to-end runs of real cases through MainProgram.execute.',
    'note': 'trusted: Coq kernel + vm_compute; tabulating translator harness/c02.py; the documented table in Spec/C02.v was typed '
            'in by hand from the property statement/README; INTERNAL_ERROR ending produced end to end through the recorded C08 finding (KeyError in cleanup).',
    'technique': 'Coq finite-table proof + tables regenerated from running code (vm_compute obligations) + end-to-end differential runs',
}
CLAIMED['C16'] = {
    'text': 'proof: over the Gallina model of the suite reader/enumerator/executor and both reporters: a read error gives '
            'INVALID_SUITE/3 with no case processed; processing order = sub-suites first, listing order; each listing '
            'processed once; globs sorted; progress OK/0 iff all cases PASS/SKIPPED/XFAIL; JUnit tests/failures+errors/'
            'child elements; reporters agree (all closed under the global context); pre-fix JUnit classification refuted. '
            'Regenerated reporter tables (C16_gen_reporters_match) + ~500 end-to-end suite runs per quick run tie model to code; '
            'validity of a hierarchy is additionally checked against a declarative unfolding spec on every run.',
    'note': 'trusted: Coq kernel + vm_compute; harness evaluates stat/glob to build the model file system; the equivalence '
            'reader-accepts <-> declarative validity is checked per generated hierarchy by vm_compute, not yet proved in general.',
    'technique': CORR + ' + regenerated reporter tables',
}
NOT_CLAIMED = {}
CLAIMED['C01'] = {
    'text': 'proof: the Gallina model of _PartialExecutor / full_execution (three try-blocks, three cleanup policies, conf phase, SKIP, --act) '
            'refines a declarative protocol specification for ALL instruction lists and ALL placements/kinds of failure '
            '(C01_exec_refines_spec, C01_full_exec_refines_spec); corollaries: validation before main, fixed order and halt at first '
            'failure, cleanup exactly once iff sandbox and told the previous phase, outcome names the earliest failure or a failing cleanup '
            'step, never pass after a failure (all closed under the global context). Tie: ~4000 executions of full_execution.execute per quick '
            'run with recording stub instructions: every step x position x failure kind, alone and combined with failing cleanup, plus random '
            'multi-fault plans.',
    'note': 'trusted: Coq kernel + vm_compute; hand-written model Model/Exec.v (checked against the running executor by correspondence, not verified); '
            'instructions are stubs: what a real instruction does inside a step is outside this property; failure message contents and source '
            'locations are not compared.',
    'technique': CORR,
}
CLAIMED['C03'] = {
    'text': 'proof (partial: scheduler and pipeline proved; per-instruction detection of defects tested): in the model a failure of any step of '
            'the validation block (act parse, symbol validation, pre-sds validation of any instruction of any phase incl. the last of [cleanup]), '
            'or of reading/preprocessing/parsing the whole file, leaves only validation events: no main step, no sandbox, no started action, and '
            'the verdict is that step\'s (C03_invalid_no_effect_partial, C03_access_error_no_execution, C03_syntax_error_anywhere, '
            'C03_symbol_command_no_execution; closed under the global context). Tie: ~660 real cases per quick run: one defective real instruction of '
            'every class at every phase x position in a template with marker side effects in every phase, plus defects in [act]/[conf], missing '
            'include, and the same through the symbol command; sandbox creation counted at the resolver.',
    'note': 'PARTIAL: that each real instruction reports each class of defect in a validation step rather than in main is per-instruction Python '
            'outside the model, covered by the differential run only. trusted: Coq kernel + vm_compute; Model/Exec.v + Model/World.v hand-written; /bin/sh.',
    'technique': CORR,
}
CLAIMED['C04'] = {
    'text': 'proof (partial: process bookkeeping proved; file-system facts observed): for every test case, ending, keep flag and placement of '
            'directory-changing / environment-changing effects, the model of partial_execution.execute restores the current directory, never touches '
            'os.environ (instructions get copies), creates at most one fresh sandbox iff execution gets past validation, removes it unless keep, and is '
            'in act/ right after creation (C04_cwd_restored, C04_environ_untouched, C04_sandbox_fresh_and_removed_unless_keep, C04_starts_in_act, '
            'C04_at_most_one_sandbox; closed under the global context). Tie: ~1200 stub executions (C01 fault plans x keep x chdir effects) and ~144 real '
            'cases through MainProgram.execute (12 endings x keep x cd/env/read-only/tmp features) per quick run, observing cwd, os.environ, directories '
            'left, reported path, layout, result/ files and contents, tmp/.',
    'note': 'PARTIAL: rmtree on read-only trees, the layout made by construct_at, the contents of result/ and "tmp/ untouched" are file-system behaviour '
            'outside the Gallina model: observed on real runs only. The checks run as root, so permission bits do not bind. An infrastructure exception '
            '(mkdtemp/chdir failing) is outside the statement (no step ended the execution) and outside the model.',
    'technique': CORR,
}
