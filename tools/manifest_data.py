NOTES = ('Technique family: machine-checked proof in Coq 8.16.1 (stdlib-style Gallina models, theorems in coq/Props, coqchk over all Props files in the C01 thorough tier: Axioms <none>). '
         'See DESIGN.md (sections 1-11: design; section 12: build log, results of eight rounds of seeded changes written by independent agents, false alarms and what was done). '
         'Genuine defects of emilkarlen/exactly found by the checks: 23 repaired by minimal fix: commits in /repo (listed as "fixed" in known_findings.json with their commits), '
         '13 recorded as open known findings (KNOWN-FINDING lines). No hooks in /repo. Seeded changes and harmless refactorings used to test the checks are kept under seeded/ '
         '(tools/mutant_iso.sh runs a check against one of them in a scratch worktree; never applied to /repo except by tools/try_mutant.sh, which undoes it).')
CORR = 'Coq theorem over hand-written Gallina model + differential correspondence (vm_compute) against the running code'
CLAIMED = {
    'C13': {
        'text': 'proof: (1) filter LINE-MATCHER: for all line-matcher/integer-matcher expressions and all texts, the Gallina model of the read-ahead '
                'analysis + reader + per-line test equals per-line filtering (C13_filter_exact, C13_int_interval_sound, '
                'C13_line_interval_pos_sound, C13_reader_exact); the pre-fix algorithm is refuted by witness. (2) filter -line-nums: for all lists of '
                'ranges (any form, signs, 0, reversed, overlapping) and all texts incl. the empty one, the model of range_merge / the ten single-range '
                'streaming algorithms with their pockets / the segment walker outputs exactly the lines whose number lies in some range and raises no '
                'IndexError (C13_line_nums_exact, C13_single_range_correct, C13_multiple_ranges_correct, C13_merge_preserves_set, C13_merge_invariant, '
                'C13_segments_walk_correct, ...). All closed under the global context. Tie: ~13000 differential cases per quick run (expressions x texts; '
                'exhaustive small-scope ranges + random range lists, one transformer object applied to several texts, whole-program runs).',
        'note': 'trusted: Coq kernel + vm_compute; the hand-written models of matcher_interval/combinations/intervals/model_construction and of '
                'filter/line_nums (Python iterators as lists, deque as list, IndexError as None), checked against the running code by correspondence, not '
                'verified; contents matchers are oracles; the range-expression parser is exercised through the real parser (integer literals only); '
                'string-source plumbing (freezing, tmp files) belongs to C14. Source tie: the pure functions concerned are also TRANSLATED from the Python source on every run (harness/py2coq.py) and proved equal to the model functions for all inputs (Props/SrcTie_C13.v); the translator is then part of the trusted base of those theorems.',
        'technique': CORR,
    },
}
CLAIMED['C02'] = {
    'text': 'proof: the model of translate_status / exit_values / the three reporters equals the documented table for every '
            'status, outcome, output mode and EVERY exit code of the action to check (C02_program_output_matches_doc etc., '
            'closed under the global context); regenerated-table obligations (C02_gen_*) re-tie the model to the running code '
            'over its complete finite domains on every run; ~1500 end-to-end runs of real cases through MainProgram.execute. Composition theorems '
            '(Props/Compose.v, 18 statements): what the user sees (exit code, identifier, streams, kept sandbox) as the documented table applied to a declarative '
            'function of the first failing step of the schedule, for every source, mode, keep flag; exit 0 iff (Normal mode) nothing failed; later steps cannot matter; '
            '"exit 65 iff only validation ran" is refuted by witness in both directions and replaced by the statements that do hold.',
    'note': 'trusted: Coq kernel + vm_compute; tabulating translator harness/c02.py; the documented table in Spec/C02.v was typed '
            'in by hand from the property statement/README; INTERNAL_ERROR ending produced end to end through the recorded C08 finding (KeyError in cleanup). Source tie: the pure functions concerned are also TRANSLATED from the Python source on every run (harness/py2coq.py) and proved equal to the model functions for all inputs (Props/SrcTie_C02.v); the translator is then part of the trusted base of those theorems.',
    'technique': 'Coq finite-table proof + tables regenerated from running code (vm_compute obligations) + end-to-end differential runs',
}
CLAIMED['C16'] = {
    'text': 'proof: over the Gallina model of the suite reader/enumerator/executor and both reporters, for ALL file systems: the reader accepts a hierarchy iff it is '
            'declaratively valid (every referenced file accessible and parsable, no suite file twice in the unfolding of the reference graph), the accepted hierarchy is that '
            'unfolding, the reader never runs out of fuel; a read error gives INVALID_SUITE/3 with no case processed; processing order = sub-suites first, listing order; each '
            'listing processed once; globs sorted; progress OK/0 iff all cases PASS/SKIPPED/XFAIL; JUnit tests/failures+errors/child elements; reporters agree; the check '
            'predicate holds on the model and correspondence implies the property (all closed under the global context); pre-fix JUnit classification refuted. Regenerated '
            'reporter tables (C16_gen_reporters_match) + ~500 end-to-end suite runs per quick run tie model to code.',
    'note': 'trusted: Coq kernel + vm_compute; harness evaluates stat/glob (and quoting: a quoted name is literal) to build the model file system; hand-written model '
            'Model/Suite.v checked against the running code by correspondence, not verified. Source tie: the pure functions concerned are also TRANSLATED from the Python source on every run (harness/py2coq.py) and proved equal to the model functions for all inputs (Props/SrcTie_C16.v); the translator is then part of the trusted base of those theorems.',
    'technique': CORR + ' + regenerated reporter tables',
}
NOT_CLAIMED = {}
CLAIMED['C01'] = {
    'text': 'proof: the Gallina model of _PartialExecutor / full_execution (three try-blocks, three cleanup policies, conf phase, SKIP, --act) '
            'refines a declarative protocol specification for ALL instruction lists and ALL placements/kinds of failure '
            '(C01_exec_refines_spec, C01_full_exec_refines_spec); corollaries: validation before main, fixed order and halt at first '
            'failure, cleanup exactly once iff sandbox and told the previous phase, outcome names the earliest failure or a failing cleanup '
            'step, never pass after a failure (all closed under the global context). Tie: ~4000 executions of full_execution.execute per quick '
            'run with recording stub instructions: every step x position x failure kind, alone and combined with failing cleanup, plus random '
            'multi-fault plans.',
    'note': 'trusted: Coq kernel + vm_compute; hand-written model Model/Exec.v (checked against the running executor by correspondence, not verified); '
            'instructions are stubs: what a real instruction does inside a step is outside this property; failure message contents and source '
            'locations are not compared.',
    'technique': CORR,
}
CLAIMED['C03'] = {
    'text': 'proof (partial: scheduler and pipeline proved; per-instruction detection of defects tested): in the model a failure of any step of '
            'the validation block (act parse, symbol validation, pre-sds validation of any instruction of any phase incl. the last of [cleanup]), '
            'or of reading/preprocessing/parsing the whole file, leaves only validation events: no main step, no sandbox, no started action, and '
            'the verdict is that step\'s (C03_invalid_no_effect_partial, C03_access_error_no_execution, C03_syntax_error_anywhere, '
            'C03_symbol_command_no_execution; closed under the global context). For the symbol-related defect classes the per-instruction gap is closed by '
            'composition with the C08 model (Props/C03C08.v): whatever the symbol validator rejects (undefined, defined later, wrong type, duplicate, relativity via '
            'symbols) is a VALIDATION_ERROR at the instruction it names with only validation events, no sandbox. Tie: ~1450 real observations per quick run: one defective real instruction of '
            'every class at every phase x position in a template with marker side effects in every phase, plus defects in [act]/[conf], missing '
            'include; the same through the symbol command, (sampled) under --act and --keep, and in suite mode (the instruction stands in the suite file and is '
            'defective for one of three cases only, by that case\'s own definitions / home files); sandbox creation counted at the resolver.',
    'note': 'PARTIAL: that each real instruction reports each class of defect in a validation step rather than in main is per-instruction Python '
            'outside the model, covered by the differential run only. trusted: Coq kernel + vm_compute; Model/Exec.v + Model/World.v hand-written; /bin/sh.',
    'technique': CORR,
}
CLAIMED['C04'] = {
    'text': 'proof (partial: process bookkeeping proved; file-system facts observed): for every test case, ending, keep flag and placement of '
            'directory-changing / environment-changing effects, the model of partial_execution.execute restores the current directory, never touches '
            'os.environ (instructions get copies), creates at most one fresh sandbox iff execution gets past validation, removes it unless keep, and is '
            'in act/ right after creation (C04_cwd_restored, C04_environ_untouched, C04_sandbox_fresh_and_removed_unless_keep, C04_starts_in_act, '
            'C04_at_most_one_sandbox; closed under the global context). Tie: ~1200 stub executions (C01 fault plans x keep x chdir effects) and ~144 real '
            'cases through MainProgram.execute (12 endings x keep x cd/env/read-only/tmp features x command-line / source-interpreter / file-interpreter actor) per quick run, observing cwd, os.environ, directories '
            'left, reported path, layout, result/ files and contents, tmp/.',
    'note': 'PARTIAL: rmtree on read-only trees, the layout made by construct_at, the contents of result/ and "tmp/ untouched" are file-system behaviour '
            'outside the Gallina model: observed on real runs only. The checks run as root, so permission bits do not bind. An infrastructure exception '
            '(mkdtemp/chdir failing) is outside the statement (no step ended the execution) and outside the model.',
    'technique': CORR,
}
TAB = 'Coq theorem over hand-written Gallina model + tables regenerated from the running code (vm_compute obligations) + differential correspondence'
CLAIMED['C05'] = {
    'text': 'proof: for all texts, all matcher / transformer expressions and all sources, the Gallina model of the anchored string-matcher / '
            'string-transformer code (four equals strategies, three strip_space streaming loops, replace with -at and -preserve-new-lines, quantifiers, '
            '&&/|| freezing, filter via C13) computes the whole-text meaning given in the reference manual (9 theorems closed under the global context (+ 5 source-tie theorems built and assumption-checked with this check): '
            'C05_matcher_correct, C05_transformer_correct, C05_equals_all_strategies, C05_replace_resplits_lines, C05_mem_buff_irrelevant, ...); Python re, '
            'str.upper/lower, str.isspace are universally quantified oracles with two stated library assumptions. Tie: ~3500 differential cases per quick run '
            '(real parsers + primitives in process on file and literal sources, and whole cases through MainProgram).',
    'note': 'The Python code is modelled by hand (coq/Model/TextOps.v), not verified. Trusted: Coq kernel + vm_compute, the model, the harness (generator, renderer to '
            'concrete syntax, oracle tables computed with the real Python library, opaque-constant miss detection), Python re / case mapping / isspace. Texts with '
            'line boundaries other than \\n are excluded (they are C14 known findings). n-ary && / || / | are modelled as nested binary nodes.',
    'technique': 'Coq: executable model + declarative spec, mutual structural induction over four syntactic classes, accumulator invariants for the streaming '
                 'algorithms; differential correspondence by vm_compute with per-case oracle tables',
}
CLAIMED['C06'] = {
    'text': 'proof: theorems over a hand-written model of the expression parser (_Parser with its new_line_ignore modes) and the combinators: completeness (every '
            'permitted rendering of every tree, with redundant parentheses and permitted line breaks, parses to that tree modulo flatten, any number of precedence '
            'levels, full and simple parser), soundness and totality, unambiguity, precedence, lazy left-to-right evaluation, left-to-right composition of |; the '
            'pre-fix parser (operator accepted as closing parenthesis) is refuted by witness; operator and truth tables of the six host types regenerated from the '
            'live Grammar objects on every run; every simple-expression context ends its argument before an operator (theorem + regenerated table). 14 theorems closed under the global context (+ 3 source-tie theorems built and assumption-checked with this check). Tie: ~5000 cases per quick run (permitted, arbitrary-layout and '
            'malformed streams for six host types, 13 nested contexts, 272 end-to-end cases; each parsed object evaluated 1-3 times).',
    'note': 'Modelled, not verified: _Parser (expression/parser.py), the TokenParser primitives it calls, Negation/Conjunction/Disjunction.matches_w_trace, '
            'SequenceStringTransformer.transform. Token level: a primitive with its arguments is one word; tokenisation is C09. The set of permitted line breaks is '
            'fixed in DESIGN section 6 (the manual defines none); that the breaks of an accepted input are exactly the permitted ones is checked by correspondence, not '
            'proved. Leaves are oracles. Trusted: Coq kernel + vm_compute, harness/c06.py.',
    'technique': TAB,
}
CLAIMED['C09'] = {
    'text': 'proof (partial: list elements proved for tokens without embedded new-lines and without a stopping parenthesis; substitution proved for uniformly quoted '
            'tokens - mixed quoting is refuted, open known finding KF-C09-1; the line number of a syntax-error report is tested end to end, not proved): theorems over a '
            'model of shlex.read_token as configured, TokenStream, symbol_syntax.split, parse_string, the rich-string / here-document parser and the list loop: token '
            'boundaries, unterminated quote is an error, consume is total (no IndexError), split is THE leftmost decomposition, here-document body exact, unterminated '
            'here-document is an error; token loops never skip an invalid head. 15 theorems closed under the global context (+ 1 source-tie theorems built and assumption-checked with this check) (10 full, 1 partial, 4 refuted-by-witness: mixed quotes and three pre-fix behaviours).',
    'note': 'Model tied to the running code by ~8000 (quick) / 80000 (thorough) generated sources incl. end-to-end `file f = ...` runs, and by tables regenerated from the '
            'running interpreter (white-space set over all code points, reserved tokens, delimiters). str.isalnum is an oracle. The Python text is modelled, not verified. '
            'The predicate accepts two readings of "substituted except inside hard quotes" that differ only for a reference written across a fragment boundary.',
    'technique': TAB,
}
CLAIMED['C11'] = {
    'text': 'proof: refinement of a two-plain-maps specification by the model of the environ/timeout/cd bookkeeping (None = inherit, populate on first modification, act '
            'applier only in [setup], act settings captured after setup/main, the _expand_vars scanning loop) for ALL histories (C11_refines), expansion = the declarative '
            'left-to-right substitution for all strings, no backward effect (pointwise and trace form), act process sees the act set and others the non-act set, timeout '
            'and cd persist forward incl. into cleanup after a failure; `env -of act` outside [setup] proved unobservable; the timeout and directory handed to a program that computes an '
            'env value; linked to the executor (Props/C11C01.v): the points at which the settings model executes instructions are exactly the main-step events of C01\'s full_execute, so '
            '"later" is the proved execution order. 16 theorems closed under the global context (+ 6 composition theorems and 7 source-tie theorems built and assumption-checked with this check). '
            'Tie: ~1200 histories with real probe processes + 4000 direct _expand_vars cases per quick run.',
    'note': 'Modelled, not verified: environ/impl.py appliers + _expand_vars (regex modelled), InstructionSettings / SetupSettingsBuilder, timeout, cd, executor per-instruction '
            'environment and act capture, phase order with halting. Trusted: the hand model, harness/c11.py, dash/env/pwd as probes. Timeout observed as the value handed to the '
            'command executor (real expiry: C19). Child-cd isolation is an OS fact, observed only. Values are constant strings; program-valued env values (run with the set '
            'being changed, as documented) are outside the quantifier.',
    'technique': CORR + ' (real test cases, probe processes, recording CommandExecutor passed through public constructors)',
}
CLAIMED['C12'] = {
    'text': 'proof (partial: "resolves to the root joined with its suffix" and "only act/tmp/cd for a destination" are proved under the guard that no PATH-STRING joined to a '
            'root is absolute; without the guard they are refuted by witness - open known finding KF-C12-1, recorded in doc/BUGS.rst): option outside the accepted set is a '
            'syntax error for every configuration; validation accepts only well-formed tables and never crashes; a destination reached through a path-symbol chain of any '
            'length ending in home/act-home/result/absolute is rejected; -rel-cd is resolved at use; end-to-end theorem from argument syntax to the documented meaning. '
            '15 theorems closed under the global context (+ 4 source-tie theorems built and assumption-checked with this check) + 3 regenerated-table obligations.',
    'note': 'Hand-written model of parse_path / parse_relativity / path ddvs+sdvs / reference restrictions / symbol_validation / relativity_root with pathlib join semantics; '
            'tied to the code on every run by tables regenerated from 13 live configuration objects, resolvers and instruction parsers, and by ~11000 differential cases at '
            'parser, instruction (every phase) and program level (home-directory snapshots). Tokenisation and symbol-reference splitting are outside the model; file-system '
            'effects are observed, not modelled.',
    'technique': TAB,
}
CLAIMED['C14'] = {
    'text': 'proof (partial: all clauses hold under the guard that no text contains a str.splitlines boundary other than LF (no CR, VT, FF, FS, GS, RS, NEL, LS, PS); without '
            'the guard they are refuted by machine-checked witnesses = open known findings KF-C14-1, KF-C14-2): for every source tree (literal, file, program output, line '
            'transformers, filter, run, two-part concat), every mem_buff_size and every access sequence before and after freezing, every view shows the denoted text; verdicts '
            'depend only on the text; M, ( M && M ), ( M || M ) and identity-wrapped M agree; equals agrees over all 3x3 source kinds; the spool keeps the text for every '
            'buffer size (UTF-8 byte level, round trip proved); n-ary concat and `replace` yield exactly the lines of their text; buffer size irrelevant; a chain nested in a chain is the flat chain and `identity` inserted at any position of any chain changes nothing (for every source, no guard); pre-fix spool and pre-fix concat refuted. 20 theorems closed under the global context.',
    'note': 'Hand-written state-passing interpreter of 14 anchored modules; line transformers and external programs are abstract functions with an admissibility hypothesis '
            '(instances proved for identity, filter, ASCII upper-case, cat, tr, tail). Tie: ~3300 (quick) / 40000 (thorough) differential cases incl. the deviating inputs, '
            'through the real parsers with chosen mem_buff_size, incl. texts of 9-40 KiB, U+FEFF/NUL, program sources whose output differs per run ("one text after freeze" is judged '
            'on the running code; the theorems assume a program prints the same at every run). Trusted: Coq kernel + vm_compute, the model, the harness, CPython io/str semantics as modelled.',
    'technique': 'Coq theorem over hand model (state-passing interpreter of string-source objects, induction over source tree and access sequence) + differential correspondence',
}
CLAIMED['C17'] = {
    'text': 'proof (partial: independence is proved for the modelled shared state - environment dictionary, predefined symbols, timeout, os.environ, cwd, sandbox; absence of '
            'OTHER process-global state in exactly_lib is checked by differential runs only): merge order (suite first, case first in cleanup) composed with the C01 schedule; '
            'standalone (--suite / beside exactly.suite) = in-suite handling; contents not inherited by sub-suites; a case changes no object that existed before it for every '
            'copy policy with a copy on each path, and every policy lacking a copy leaks (all 128 policies); world restored; a case behaves as if alone (refinement to a '
            'store-free reference semantics); suite instruction objects shared across cases: stateless ones are independent, a caching one is refuted. 15 theorems closed under the global context (+ 1 source-tie theorems built and assumption-checked with this check).',
    'note': 'First-order store model of processors.py/_exe_conf_that_may_be_updated, executor.py copies, execution.py preserved_cwd/rmtree, suite_file_reading.py, '
            'accessor_resolver.py; modelled, not verified; tie = three differential experiments per run (real suites run three ways; real histories in every order vs '
            'fresh-process baselines; stub instructions mutating every handle through the public executor).',
    'technique': 'Coq theorems over a first-order store model (aliasing) + refinement to a store-free reference semantics + composition with the C01 schedule; differential correspondence',
}
CLAIMED['C19'] = {
    'text': 'proof (partial: termination of the OS process tree and wall-clock time are observed by real runs, not proved; bounds are in model time): the timeout handed to '
            'every process start site is the value of the last timeout instruction whose main ran before it, else the default; `none` lifts it from that point on only; the '
            'model is proved to simulate the C01 executor, so cleanup and sandbox removal after an expiry are corollaries of C01/C04; at most |cleanup| further steps run after '
            'an expiry; regenerated site table: every process start site is known and passes a timeout. 10 theorems closed under the global context (+ 6 composition theorems and 1 source-tie theorems built and assumption-checked with this check). Open known finding KF-C19-1 '
            '(a command forked by the shell of a `$` site survives the kill).',
    'note': 'Model/Timeout.v = Exec.partial_execute with InstructionSettings.timeout threaded through; subprocess.call(timeout=) contract is the explicit function `expires`. Tie: '
            'ast scan of every process start site under src/exactly_lib (fail-closed), in-process observation of the timeout reaching Popen.wait for every site kind through '
            'MainProgram (wrapper in the harness process only), real runs with sleeping / SIGTERM-ignoring children (3 sites quick, 49 thorough). The suite preprocessor '
            '(subprocess.call without timeout, before any test case exists) is out of the statement\'s scope and listed.',
    'technique': TAB,
}
CLAIMED['C20'] = {
    'text': 'proof: general theorems over the model (one name/constructor list => help list = accepted names under name-faithfulness; value_lookup; the help argument parser '
            'reaches every documented entry; HTML anchors injective) + finite theorems decided by the Coq kernel over an inventory regenerated from the live program on every '
            'run (accepted = documented per phase, suite section and entity type; every enumerated help request exits 0 with output; every internal href has exactly one target; what is accepted by `exactly CASE` is accepted in each of the 7 ways of running a case, `exactly suite` included). '
            '17 theorems closed under the global context. Honest label: the finite theorems are kernel-decided checks over regenerated data; their bound is the inventory.',
    'note': 'Trusted: the inventory generator in harness/c20.py (drives the real program in process; "not accepted" = answered exactly like an invented name and, for '
            'instructions, UnknownInstructionException; rendered-table and HTML attribute extraction each cross-checked by a second path). Modelled, not verified: '
            'instruction_setup.py, the help contents structure, value_lookup.py, argument_parsing.py, cross_ref_target_renderer.py. Concepts and syntax elements have no parser: '
            '"accepted" means registered in definitions.entity.*.',
    'technique': TAB,
}
CLAIMED['C15'] = {
    'text': 'proof: populate of a FILE-LIST = its compositional denotation, in order, confined under the target (guard: no symbolic link to a directory on a written path), '
            'a clash is HARD_ERROR with the tree unchanged; the recursive files generator (queue, min/max depth, prune, links followed) yields a Permutation of the declarative '
            'set for EVERY listing order and never runs out of fuel; every modelled files-matcher / file-matcher gives the declarative verdict for every listing order whenever '
            'that verdict is defined; selection = conjunction, prune = disjunction, they commute; populate-then-`matches -full` of the typed listing holds. 17 theorems closed '
            'under the global context.',
    'note': 'Hand-written model of file_list / file_makers / copy_dir_contents / files_matcher.models / matches_* / quantifiers / files_condition / file_type / dir_contents, tied '
            'to the code by ~3700 (quick) / 36000 (thorough) complete in-process cases on real trees with symlinks. Oracles: scandir (any permutation), fnmatch / PurePath.match '
            '(tables), regex name/path patterns (re.search), `contents` with any TEXT-MATCHER and the `run` matcher (oracle records, all theorems stated for every oracle). Symlink '
            'cycles are outside the tree type; the matcher theorem is conditional on the manual\'s semantics being defined (no consulted file of a HARD_ERROR type: then '
            'order-dependence is real). Not modelled: symbol references inside matchers, -path-arg-marker, non-constant TEXT-SOURCEs in FILE-LISTs.',
    'technique': 'Coq proofs over an executable model (nested induction over trees and FILE-LISTs, frame lemmas, BFS-vs-DFS up to Permutation, mutual induction over the matcher '
                 'syntaxes) + differential correspondence by vm_compute',
}
CLAIMED['C10'] = {
    'text': 'proof (partial: delivery of argv/stdin/cwd to the OS process and process behaviour are the operating system - observed with probe processes, not proved): '
            'program resolution = a declarative denotation on every well-formed symbol table and never out of fuel; arguments, stdin parts and transformations accumulate in '
            'definition order for chains of ANY length; the process of a chain gets the denoted executable, stdin (program parts then [setup] stdin, in denoted order) and cwd; a '
            'shell command is one verbatim string, everything else an argv vector; list and string symbols splice; the exit-code decision for every code and phase; act outcome = '
            'what exit-code/stdout/stderr see; the file, source and null actors; programs as transformer / text matcher / file matcher (`run`); whole-case refinement '
            'run_case = spec_run_case for every well-formed table and EVERY case, definitions interleaved with uses in any phase. 27 theorems closed under the global '
            'context; the pre-fix stdin order is refuted by witness.',
    'note': 'Model/Prog.v mirrors accumulated_components, program_symbol_sdv, command_program_sdv, list/string resolution, _CommandTranslator, actors, text-source programs, '
            'result_to_sh/pfh, _register_outcome; modelled, not verified. Oracle: outcome of the k-th started process as reported by the probe. Tie: ~960 real cases per quick run '
            '(12500 thorough, all 256 exit codes) whose programs are probes (recording process executor + child-side reports of argv/stdin/cwd). Out of scope by construction: '
            'path resolution (C12), string syntax (C09), transformer semantics (C05), env/timeout (C11/C19).',
    'technique': CORR + ' (probe programs; recording ProcessExecutor)',
}
CLAIMED['C07'] = {
    'text': 'proof (the phase-order theorem assumes self-contained blocks; the necessity of that assumption is shown by a refuted variant): ParseSource line-number invariant over every operation '
            'sequence; the document reader (default section, headers, comment/blank grouping, multi-line instructions as oracle extents, inclusion with the chain of including '
            'files) = the declarative reading "elements by governing header, in file order"; phase order irrelevant; source locations exact (first line, consumed lines, '
            'inclusion chain); error locations exact also when a parser raises after consuming input (directives, multi-line instructions); a malformed `including` is '
            'reported at its own line; include is a splice; unknown section / inclusion cycle is an error; the reader terminates. 16 theorems closed under the global context (+ 5 composition theorems and 1 source-tie theorems built and assumption-checked with this check), plus the composition with C01 '
            '(Props/C07C01.v): the executed test case is a function of the per-phase contents only, so permuting phase blocks gives the same execution trace and result for all '
            'instruction semantics, and the failing instruction named in an outcome is traced to its exact source line and inclusion chain.',
    'note': 'Hand-written model of parse_source.py and the document reader (document_parser._Impl/parse_file/_include_files/_add_raw_doc, element parsers, act parser, inclusion '
            'directive parser) over real line texts; modelled, not verified. Instruction parsers, path resolution and file contents are explicit oracles (Section variables; tables '
            'computed from the running code per case). ASCII only. Tie: ~8400 (quick) / ~92700 (thorough) cases incl. exhaustive small documents, inclusion graphs with '
            'cycles/diamonds/missing files, block permutations executed end to end.',
    'technique': 'Coq theorem over hand model (invariant over ParseSource operation sequences; refinement reader = declarative reading by induction on fuel/depth; block '
                 'decomposition) + oracle tables + differential correspondence',
}
CLAIMED['C08'] = {
    'text': 'proof (partial: "each reference evaluates to the defined value" is proved for [cleanup] only when every main step scheduled before it has run; without that proviso '
            'it is refuted by a vm_compute witness replayed on the real program - open known finding KF-C08-1; all other clauses full): validation accepts iff no name is defined '
            'twice (builtins included) and every reference has an earlier definition in execution order whose type satisfies the restriction, transitively; a violation is a '
            'VALIDATION_ERROR before execution; file order of phases irrelevant; indirect checking terminates; resolution of strings/lists/paths; the type-compatibility matrix '
            'regenerated from the live restriction objects matches the model. 11 theorems closed under the global context.',
    'note': 'Hand-written model of symbol validation, restrictions (13 value types, three restriction forms), resolution and the execution-time table (coq/Model/Symbols.v); modelled, '
            'not verified. Tie: ~3500 (quick) / 31000 (thorough) generated def/reference programs run through the real main program + regenerated type matrix (323 rows). Trusted '
            'besides the kernel: the harness mapping from generated source to model terms, the modelled pathlib join, the assumption that non-def instructions resolve exactly the '
            'references they report. Outside: message texts, pre-sds/post-setup validation steps, cd, --act.',
    'technique': TAB,
}
CLAIMED['C18'] = {
    'text': 'proof (partial: the exception-routing layers, integer expressions and replacement templates are proved never to yield INTERNAL_ERROR / an uncaught Exception '
            'for all inputs; that no OTHER parser, validator or instruction raises on some text is fuzzed with grammar-based mutants, not proved): routing is total for every '
            'layer and Exception class, parse-time exceptions are SYNTAX_ERROR, HardErrorException is HARD_ERROR, INTERNAL_ERROR only from non-HardError exceptions, '
            'non-Exception BaseExceptions escape (refuted totality witness = KF-C18-3); python_evaluate classifies every integer expression as value / not-an-integer (pre-fix '
            'catch set refuted); replacement templates never internal (pre-fix refuted); obligations regenerated from the source (except chains read by an ast visitor, issubclass '
            'table, 2.4k-row route table raised through the real program). 21 theorems closed under the global context (+ 5 composition theorems built and assumption-checked with this check). Open known findings KF-C18-2/3/4/5/8/12/13 are listed; FIX-C18-1..7 repaired.',
    'note': 'Hand-written model of the try/except chains of 20 anchored functions, of python_evaluate over Python integer arithmetic and of CPython\'s replacement-template parser; '
            'modelled, not verified; tied to the source on every run by (i) the class names of every except clause read from the source, (ii) every exception class raised through '
            'the real program at every site via a text-driven stub instruction/actor, (iii) differential runs of integer expressions, templates and ~2000 (quick) / ~33000 '
            '(thorough) mutated test cases in process. Trusted: Coq kernel + vm_compute, the harness (ast visitor, stubs, generators, canonicaliser), Python 3.12.',
    'technique': 'Coq theorem over hand model + tables regenerated from source and running code + in-process grammar-based mutation fuzzing evaluated by vm_compute',
}
