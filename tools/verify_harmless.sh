#!/bin/bash
# tools/verify_harmless.sh Cxx hN : confirm a HARMLESS (behaviour-preserving) change in its scratch worktree and store it under /verif/seeded/
# (the demo written for the property must exit 0 on the clean tree AND with the patch; the pinned suite must pass with the patch)
ID="$1"; M="$2"; WT=/tmp/mut/$ID; OUT=/tmp/mut/$ID-out/$M
export PYTHONWARNINGS=ignore TREE=$WT
git -C $WT checkout -q -- . ; git -C $WT clean -fdq
/venv/bin/python $OUT/demo.py >/tmp/mut/$ID-$M.clean.log 2>&1; c=$?
git -C $WT apply $OUT/patch.diff || { echo "$ID $M: patch does not apply"; exit 2; }
/venv/bin/python $OUT/demo.py >/tmp/mut/$ID-$M.mut.log 2>&1; m=$?
python3 /verif/tools/baseline_check.py $WT >/tmp/mut/$ID-$M.base.log 2>&1; b=$?
git -C $WT checkout -q -- . ; git -C $WT clean -fdq
echo "$ID $M: demo clean=$c with-patch=$m baseline=$b"
if [ $c = 0 ] && [ $m = 0 ] && [ $b = 0 ]; then
  D=/verif/seeded/$ID-$M; mkdir -p $D; cp $OUT/patch.diff $OUT/demo.py $D/
  python3 - "$OUT/meta.json" "$D/meta.json" "$c" "$m" "$b" <<'PY'
import json,sys
m=json.load(open(sys.argv[1]))
m['kind']='harmless refactoring (behaviour-preserving): checks are expected to stay silent'
m['confirmed_by_main_session']={'demo_exit_on_clean_tree':int(sys.argv[3]),'demo_exit_with_patch':int(sys.argv[4]),'pinned_suite_with_patch_exit':int(sys.argv[5]),
  'commands':'tools/verify_harmless.sh (clean tree: demo.py; git apply patch.diff: demo.py, tools/baseline_check.py; git checkout)'}
json.dump(m,open(sys.argv[2],'w'),indent=1)
PY
  echo "  stored $D"
else echo "  NOT stored"; fi
