#!/usr/bin/env python3
"""Run the pinned test suite of /repo (or the tree given as argv[1]) and check that every
stable_pass test of /root/.vp/BASELINE.json passes.  Exit 0 iff so."""
import json, subprocess, sys, tempfile, os, xml.etree.ElementTree as ET
repo = sys.argv[1] if len(sys.argv) > 1 else '/repo'
base = json.load(open('/root/.vp/BASELINE.json'))
with tempfile.TemporaryDirectory() as d:
    jx = os.path.join(d, 'r.xml')
    env = dict(os.environ); env.pop('EXACTLY_VERIF', None)
    subprocess.run(['/venv/bin/python', '-m', 'pytest', '-ra', '-q', '-p', 'no:cacheprovider', '--timeout=900',
                    '--continue-on-collection-errors', '--junitxml=' + jx], cwd=repo, env=env,
                   stdout=subprocess.DEVNULL, stderr=subprocess.DEVNULL)
    passed = set()
    for tc in ET.parse(jx).getroot().iter('testcase'):
        if not any(ch.tag in ('failure', 'error', 'skipped') for ch in tc):
            passed.add(tc.get('classname', '') + '::' + tc.get('name', ''))
missing = [t for t in base['stable_pass'] if t not in passed]
print('stable_pass: %d, passing now: %d, missing: %d' % (len(base['stable_pass']), len(base['stable_pass']) - len(missing), len(missing)))
for t in missing[:20]:
    print('  MISSING', t)
sys.exit(1 if missing else 0)
