#!/bin/bash
# Build the framework offline from files on disk: full .vo build of the Coq development.
set -e
cd "$(dirname "$0")"
export PYTHONHASHSEED=0 PYTHONWARNINGS=ignore PYTHONDONTWRITEBYTECODE=1
export VERIF_REPO="${VERIF_REPO:-/repo}"
export PYTHONPATH="$PWD/harness:$VERIF_REPO/src"
mkdir -p work evidence replays coq/Gen
/venv/bin/python harness/setup_build.py
